//! Engine `aggregation` (C10): real `#[aggregate]` structs through `KeyedAggregator`, embedded
//! `Aggregate<T>`, `MutexSink`, `TeeSink`/`NonAggregatedSink`, `WorkerSink` and the merge-on-drop guards.
//!
//! Case line: `<pipeline> <tok> <tok> …` — see `lean/Driver/Aggregation.lean` for the token grammar
//! (the same line is sent to the Lean driver). Additional, oracle-only / trace pipelines:
//!   `timed <interval> <tok>…`   WorkerSink with a real flush interval (`<n>` ms | `ns<n>` | `s<n>` | `max`; boundary
//!        stream: 0, 1 ns, 1 ms, 1 h, 100 y, u64::MAX/2 s, u64::MAX s, Duration::MAX); toks `s0=<input>`, `p<ms>` (sleep), `F0`
//!   `cap` / `keyonly`   SortAndMerge<0|1|2> inline capacities; an aggregated struct with a key and no aggregated field
//!   `mt <kind> <producers> <flushes> <tok>…`  kind `w` (WorkerSink) | `m` (MutexSink); toks `s<p>=<input>`:
//!        producer thread p merges the inputs carrying its number, in order; a flusher thread issues the flushes
//!
//!   `gated <tok>…`  WorkerSink around an inner sink whose `flush` waits at a gate the harness controls, so
//!        that several flush requests are in flight at once deterministically (`A<h>` start a request and
//!        leave it in flight, `P` watch the requests in flight, `G0`/`G1` close/open the gate); compared
//!        with the model like the other pipelines; a request observed complete must find everything sent
//!        before it already emitted
//!
//! Merge-on-drop guards (`keyed`, `mutex`, `worker`): created by `g` (CloseAndMergeOnDrop) or `h` (MergeOnDrop),
//! they go out of scope by `d<g>` (drop), `u<g>` (an unwinding panic caught on the thread) or `j<g>` (an
//! unwinding panic on a spawned thread that is joined); for the oracle and the model a drop is a drop.
//!
//! Implementation-vs-property oracle (independent of Lean; written from the property statement):
//! the inputs are grouped per flush epoch and per key with `BTreeMap`s; every epoch must have emitted
//! exactly one aggregate per distinct key whose sum fields are the sums, whose keep-last field is the
//! last input's, whose distribution holds exactly the inputs' observations (by count, one `Repeated`
//! per distinct value), nothing else; a flush returns only after everything sent before it was
//! emitted (the aggregates are read right after it returns); after the last handle is dropped the
//! rest is emitted exactly once and the worker thread drops its inner sink (waited for ≤ 20 s).
//! For `timed`/`mt` (epoch boundaries unknown) the totals over all emitted aggregates are conserved
//! per key, the keep-last of a key's final aggregate is some producer's last input, and with one
//! producer the aggregates of a key are consecutive non-empty chunks of its inputs; the Lean trace
//! predicate `Spec.traceOk` is evaluated on the same trace.
//! Correspondence: the canonical observation string of the run must equal the Lean model's reply.

use metrique::unit_of_work::metrics;
use metrique::writer::BoxEntrySink;
use metrique::CloseValue;
use metrique_aggregation::aggregate;
use metrique_aggregation::aggregator::{Aggregate, KeyedAggregator};
use metrique_aggregation::histogram::{Histogram, SortAndMerge};
use metrique_aggregation::sink::{MergeOnDrop, MutexSink, NonAggregatedSink, TeeSink, WorkerSink, non_aggregate};
use metrique_aggregation::traits::{AggregateSink, AggregateSinkRef, AggregateStrategy, FlushableSink, Key, RootSink};
use metrique_aggregation::value::{Distribution, Flatten, KeepLast, MergeOptions, Sum};
use metrique_writer::sink::FlushWait;
use metrique_writer::test_util::{TestEntry, test_entry_sink, test_metric, to_test_entry};
use metrique_writer::AnyEntrySink;
use std::sync::atomic::{AtomicU64, Ordering};
use std::sync::{Arc, Mutex};
use metrique_writer::unit::None as NoUnit;
use metrique_writer::{MetricFlags, MetricValue, Observation, Unit, Value, ValueWriter};
use std::borrow::Cow;
use std::collections::BTreeMap;
use std::hash::{Hash, Hasher};
use std::sync::mpsc;
use std::time::Duration;
use verif_harness::*;

// ------------------------------------------------------------------------------------------------
// The real aggregated structs

/// a value that writes several observations: `Unsigned(v)` when the count is 1, else `Repeated`
#[derive(Clone, Debug, Default, PartialEq)]
pub struct Obs(Vec<(u64, u64)>);

impl Value for Obs {
    fn write(&self, writer: impl ValueWriter) {
        writer.metric(
            self.0.iter().map(|(v, c)| {
                if *c == 1 {
                    Observation::Unsigned(*v)
                } else {
                    Observation::Repeated { total: (*v as f64) * (*c as f64), occurrences: *c }
                }
            }),
            Unit::None,
            [],
            MetricFlags::empty(),
        )
    }
}
impl MetricValue for Obs {
    type Unit = NoUnit;
}
impl CloseValue for Obs {
    type Closed = Obs;
    fn close(self) -> Obs {
        self
    }
}

#[aggregate(ref)]
#[metrics]
#[derive(Clone)]
pub struct Inner {
    #[aggregate(strategy = Sum)]
    inner_count: u64,
}

#[aggregate(ref)]
#[metrics]
pub struct Call {
    #[aggregate(key)]
    endpoint: String,
    #[aggregate(key)]
    shard: u32,
    #[aggregate(strategy = Sum)]
    bytes: u64,
    #[aggregate(strategy = KeepLast)]
    last: u64,
    #[aggregate(strategy = Distribution, clone)]
    latency: Obs,
    #[aggregate(strategy = MergeOptions<Sum>)]
    opt: Option<u64>,
    #[metrics(flatten)]
    #[aggregate(strategy = Flatten, clone)]
    inner: Inner,
}

/// the same fields without keys, for the embedded `Aggregate<T>` / `MutexSink<Aggregate<T>>`
#[aggregate(ref)]
#[metrics]
pub struct Plain {
    #[aggregate(strategy = Sum)]
    bytes: u64,
    #[aggregate(strategy = KeepLast)]
    last: u64,
    #[aggregate(strategy = Distribution, clone)]
    latency: Obs,
    #[aggregate(strategy = MergeOptions<Sum>)]
    opt: Option<u64>,
    #[metrics(flatten)]
    #[aggregate(strategy = Flatten, clone)]
    inner: Inner,
}

/// inline-capacity boundary of `SortAndMerge<N>`: the same observations through N = 0, 1, 2
#[aggregate]
#[metrics]
pub struct Cap {
    #[aggregate(strategy = Histogram<Obs, SortAndMerge<0>>)]
    c0: Obs,
    #[aggregate(strategy = Histogram<Obs, SortAndMerge<1>>)]
    c1: Obs,
    #[aggregate(strategy = Histogram<Obs, SortAndMerge<2>>)]
    c2: Obs,
}

#[metrics]
struct ParentC {
    #[metrics(flatten)]
    caps: Aggregate<Cap>,
}

/// an aggregated struct with no aggregated field at all: only its key
#[aggregate]
#[metrics]
pub struct KeyOnly {
    #[aggregate(key)]
    endpoint: String,
}

#[metrics]
struct ParentE {
    #[metrics(flatten)]
    calls: Aggregate<Plain>,
}

#[metrics]
struct ParentM {
    #[metrics(flatten)]
    calls: MutexSink<Aggregate<Plain>>,
}

/// second tee branch: keyed by endpoint only, with a deliberately weak hash (the length of the
/// endpoint) so that distinct keys collide and only `static_key_matches` tells them apart
pub struct ByEndpointWeak;

#[derive(Clone, PartialEq, Eq)]
#[metrics]
pub struct WeakKey<'a> {
    endpoint: Cow<'a, String>,
}

impl Hash for WeakKey<'_> {
    fn hash<H: Hasher>(&self, state: &mut H) {
        self.endpoint.len().hash(state)
    }
}

pub struct WeakKeyExtractor;

impl Key<CallEntry> for WeakKeyExtractor {
    type Key<'a> = WeakKey<'a>;
    fn from_source(source: &CallEntry) -> Self::Key<'_> {
        #[allow(deprecated)]
        WeakKey { endpoint: Cow::Borrowed(&source.endpoint) }
    }
    fn static_key<'a>(key: &Self::Key<'a>) -> Self::Key<'static> {
        WeakKey { endpoint: Cow::Owned(key.endpoint.clone().into_owned()) }
    }
    fn static_key_matches<'a>(owned: &Self::Key<'static>, borrowed: &Self::Key<'a>) -> bool {
        owned == borrowed
    }
}

impl AggregateStrategy for ByEndpointWeak {
    type Source = CallEntry;
    type Key = WeakKeyExtractor;
}

/// `MergeOnDrop<T, Sink>` (the `#[aggregate(direct)]` guard) needs `T: AggregateStrategy<Source = T>`:
/// the already closed entries are given that impl, reusing the generated `Merge`/`Key` impls, so
/// that both guard kinds feed the same sinks
impl AggregateStrategy for CallEntry {
    type Source = CallEntry;
    type Key = CallKeyExtractor;
}
impl AggregateStrategy for PlainEntry {
    type Source = PlainEntry;
    type Key = metrique_aggregation::value::NoKey;
}

/// a merge-on-drop guard of either kind (its `Drop` does the merge)
type AnyGuard = Box<dyn std::any::Any + Send>;

/// the three ways a guard goes out of scope
fn drop_guard(how: char, g: AnyGuard) {
    match how {
        // dropped by an unwinding panic, the panic contained by `catch_unwind`
        'u' => {
            let r = std::panic::catch_unwind(std::panic::AssertUnwindSafe(move || {
                let _unit_of_work = g;
                panic!("unit of work failed");
            }));
            assert!(r.is_err());
        }
        // dropped by an unwinding panic on a spawned thread, contained by `join`
        'j' => {
            let r = std::thread::spawn(move || {
                let _unit_of_work = g;
                panic!("unit of work failed");
            })
            .join();
            assert!(r.is_err());
        }
        _ => drop(g),
    }
}

/// `RootSink` over a keyed aggregator the harness can still flush: `MutexSink<SharedKeyed>`
struct SharedKeyed(Arc<Mutex<KeyedAggregator<Call, BoxEntrySink>>>);
impl AggregateSink<CallEntry> for SharedKeyed {
    fn merge(&mut self, entry: CallEntry) {
        self.0.lock().unwrap().merge(entry)
    }
}

// ------------------------------------------------------------------------------------------------
// Inputs, tokens, cases

#[derive(Clone, Debug, PartialEq)]
struct In {
    endpoint: String,
    shard: u32,
    bytes: u64,
    last: u64,
    obs: Vec<(u64, u64)>,
    opt: Option<u64>,
    inner: u64,
}

impl In {
    fn encode(&self) -> String {
        let obs = if self.obs.is_empty() {
            "-".to_string()
        } else {
            self.obs.iter().map(|(v, c)| format!("{v}*{c}")).collect::<Vec<_>>().join("+")
        };
        format!(
            "{}:{}:{}:{}:{}:{}:{}",
            hex(self.endpoint.as_bytes()),
            self.shard,
            self.bytes,
            self.last,
            obs,
            self.opt.map(|v| v.to_string()).unwrap_or("-".into()),
            self.inner
        )
    }
    fn decode(s: &str) -> Option<In> {
        let p: Vec<&str> = s.split(':').collect();
        if p.len() != 7 {
            return None;
        }
        let obs = if p[4] == "-" {
            vec![]
        } else {
            p[4].split('+')
                .map(|x| {
                    let (v, c) = x.split_once('*')?;
                    Some((v.parse().ok()?, c.parse().ok()?))
                })
                .collect::<Option<Vec<_>>>()?
        };
        Some(In {
            endpoint: String::from_utf8(unhex(p[0])?).ok()?,
            shard: p[1].parse().ok()?,
            bytes: p[2].parse().ok()?,
            last: p[3].parse().ok()?,
            obs,
            opt: if p[5] == "-" { None } else { Some(p[5].parse().ok()?) },
            inner: p[6].parse().ok()?,
        })
    }
    fn call(&self) -> Call {
        Call {
            endpoint: self.endpoint.clone(),
            shard: self.shard,
            bytes: self.bytes,
            last: self.last,
            latency: Obs(self.obs.clone()),
            opt: self.opt,
            inner: Inner { inner_count: self.inner },
        }
    }
    fn plain(&self) -> Plain {
        Plain {
            bytes: self.bytes,
            last: self.last,
            latency: Obs(self.obs.clone()),
            opt: self.opt,
            inner: Inner { inner_count: self.inner },
        }
    }
}

/// `<tag><idx?>[=<input>]`
#[derive(Clone, Debug, PartialEq)]
struct Tok {
    tag: char,
    idx: Option<usize>,
    input: Option<In>,
}

impl Tok {
    fn new(tag: char, idx: Option<usize>, input: Option<In>) -> Tok {
        Tok { tag, idx, input }
    }
    fn encode(&self) -> String {
        let mut s = self.tag.to_string();
        if let Some(i) = self.idx {
            s.push_str(&i.to_string());
        }
        if let Some(i) = &self.input {
            s.push('=');
            s.push_str(&i.encode());
        }
        s
    }
    fn decode(s: &str) -> Option<Tok> {
        let (head, input) = match s.split_once('=') {
            Some((h, i)) => (h, Some(In::decode(i)?)),
            None => (s, None),
        };
        let mut ch = head.chars();
        let tag = ch.next()?;
        let rest: String = ch.collect();
        let idx = if rest.is_empty() { None } else { Some(rest.parse().ok()?) };
        Some(Tok { tag, idx, input })
    }
}

#[derive(Clone, Debug)]
struct Case {
    /// pipeline name and its leading numeric parameters (`timed 3`, `mt w 3 2`)
    head: Vec<String>,
    toks: Vec<Tok>,
}

fn head_len(p: &str) -> usize {
    match p {
        "timed" => 2,
        "mt" => 4,
        _ => 1,
    }
}

impl Case {
    fn pipeline(&self) -> &str {
        &self.head[0]
    }
    fn encode(&self) -> String {
        let mut v = self.head.clone();
        v.extend(self.toks.iter().map(|t| t.encode()));
        v.join(" ")
    }
    fn decode(s: &str) -> Option<Case> {
        let parts: Vec<&str> = s.split_whitespace().collect();
        let p = *parts.first()?;
        let n = head_len(p);
        if parts.len() < n {
            return None;
        }
        let toks = parts[n..].iter().map(|t| Tok::decode(t)).collect::<Option<Vec<_>>>()?;
        Some(Case { head: parts[..n].iter().map(|s| s.to_string()).collect(), toks })
    }
    fn with(&self, toks: &[Tok]) -> Case {
        Case { head: self.head.clone(), toks: toks.to_vec() }
    }
}

// ------------------------------------------------------------------------------------------------
// Observed aggregates

#[derive(Clone, Debug, Default, PartialEq)]
struct Agg {
    endpoint: Option<String>,
    shard: Option<u64>,
    bytes: Option<u64>,
    last: Option<u64>,
    /// (value, occurrences) as emitted, in emitted order; `None` when an observation was not an exact integer
    dist: Option<Vec<(u64, u64)>>,
    opt: Option<u64>,
    inner: Option<u64>,
}

fn single(m: Option<&metrique_writer::test_util::Metric>) -> Option<u64> {
    let m = m?;
    if m.distribution.len() != 1 {
        return None;
    }
    match m.distribution[0] {
        Observation::Unsigned(v) => Some(v),
        _ => None,
    }
}

fn dist_of(m: Option<&metrique_writer::test_util::Metric>) -> Option<Vec<(u64, u64)>> {
    m.and_then(|m| {
        m.distribution
            .iter()
            .map(|o| match *o {
                Observation::Unsigned(v) => Some((v, 1)),
                Observation::Repeated { total, occurrences } if occurrences > 0 => {
                    let v = total / occurrences as f64;
                    if v >= 0.0 && v.fract() == 0.0 && v < 9.0e15 { Some((v as u64, occurrences)) } else { None }
                }
                _ => None,
            })
            .collect::<Option<Vec<_>>>()
    })
}

fn agg_of(e: &TestEntry) -> Agg {
    let dist = dist_of(e.metrics.get("latency"));
    Agg {
        endpoint: e.values.get("endpoint").cloned(),
        shard: single(e.metrics.get("shard")),
        bytes: single(e.metrics.get("bytes")),
        last: single(e.metrics.get("last")),
        dist,
        opt: single(e.metrics.get("opt")),
        inner: single(e.metrics.get("inner_count")),
    }
}

fn show_agg(a: &Agg) -> String {
    let n = |v: Option<u64>| v.map(|v| v.to_string()).unwrap_or("-".into());
    let dist = match &a.dist {
        None => "?".to_string(),
        Some(d) if d.is_empty() => "-".to_string(),
        Some(d) => d.iter().map(|(v, c)| format!("{v}*{c}")).collect::<Vec<_>>().join("+"),
    };
    format!(
        "{}:{}:{}:{}:{}:{}:{}",
        a.endpoint.as_ref().map(|s| hex(s.as_bytes())).unwrap_or("-".into()),
        n(a.shard),
        a.bytes.map(|v| v.to_string()).unwrap_or("?".into()),
        n(a.last),
        dist,
        a.opt.map(|v| v.to_string()).unwrap_or("?".into()),
        a.inner.map(|v| v.to_string()).unwrap_or("?".into())
    )
}

fn show_list(l: &[Agg]) -> String {
    if l.is_empty() {
        return "-".into();
    }
    let mut v: Vec<String> = l.iter().map(show_agg).collect();
    v.sort();
    v.join(";")
}

/// raw (non-aggregated) entries: endpoint:shard:bytes in order
fn show_raw(es: &[TestEntry]) -> String {
    if es.is_empty() {
        return "-".into();
    }
    es.iter()
        .map(|e| {
            let a = agg_of(e);
            format!(
                "{}:{}:{}",
                a.endpoint.as_ref().map(|s| hex(s.as_bytes())).unwrap_or("-".into()),
                a.shard.map(|v| v.to_string()).unwrap_or("-".into()),
                a.bytes.map(|v| v.to_string()).unwrap_or("?".into())
            )
        })
        .collect::<Vec<_>>()
        .join(";")
}

/// what a run produced
#[derive(Clone, Debug, Default)]
struct Run {
    /// one per observation point (flush / end): aggregates of branch A and of branch B (B unused by keyed/embedded/mutex)
    epochs: Vec<(Vec<Agg>, Vec<Agg>)>,
    /// the observation that is the end-of-life flush of a worker (index into epochs)
    end_epoch: Option<usize>,
    raw: Option<Vec<TestEntry>>,
    exited: Option<bool>,
    /// panics, timeouts
    trouble: Vec<String>,
    /// observations of the `gated` pipeline, in order
    gobs: Vec<GObs>,
}

/// what the `gated` pipeline observes
#[derive(Clone, Debug)]
enum GObs {
    /// state of flush request `k` right after it was issued while the gate was closed, and
    /// everything emitted so far (both branches) at that moment
    Flush { k: usize, ready: bool, emitted: (Vec<Agg>, Vec<Agg>) },
    /// gate closed: the requests in flight that completed during the bounded watch, out of how many
    Watch { ready: Vec<usize>, in_flight: usize, emitted: (Vec<Agg>, Vec<Agg>) },
    /// gate opened and every request in flight completed: what was emitted since the last `Sync`/start
    Sync { upto: usize, delta: (Vec<Agg>, Vec<Agg>) },
    /// end of the case
    End { delta: (Vec<Agg>, Vec<Agg>) },
}

impl Run {
    fn canonical(&self, pipeline: &str) -> String {
        let mut obs: Vec<String> = vec![];
        for g in &self.gobs {
            obs.push(match g {
                GObs::Flush { k, ready, .. } => format!("f{k}:{}", if *ready { "ready" } else { "pending" }),
                GObs::Watch { ready, in_flight, .. } => format!("P:{}/{}", in_flight - ready.len(), in_flight),
                GObs::Sync { delta, .. } => format!("G:A[{}]B[{}]", show_list(&delta.0), show_list(&delta.1)),
                GObs::End { delta } => format!("end:A[{}]B[{}]", show_list(&delta.0), show_list(&delta.1)),
            });
        }
        for (i, (a, b)) in self.epochs.iter().enumerate() {
            let pref = if self.end_epoch == Some(i) { "end:" } else { "" };
            match pipeline {
                "cap" => {
                    let d: Vec<String> = a.iter().map(show_dist).collect();
                    obs.push(if d.windows(2).all(|w| w[0] == w[1]) { d.first().cloned().unwrap_or_default() } else { format!("differ:{}", d.join("|")) });
                }
                "keyonly" => {
                    let mut k: Vec<String> = a.iter().map(|x| x.endpoint.as_ref().map(|s| hex(s.as_bytes())).unwrap_or("?".into())).collect();
                    k.sort();
                    obs.push(if k.is_empty() { "-".into() } else { k.join(";") });
                }
                "tee" | "worker" => obs.push(format!("{pref}A[{}]B[{}]", show_list(a), show_list(b))),
                _ => obs.push(format!("{pref}{}", show_list(a))),
            }
        }
        if let Some(r) = &self.raw {
            obs.push(format!("raw={}", show_raw(r)));
        }
        if let Some(x) = self.exited {
            obs.push(format!("exited={}", x as u8));
        }
        for t in &self.trouble {
            obs.push(format!("trouble:{t}"));
        }
        if obs.is_empty() { "none".into() } else { obs.join(" | ") }
    }
}

// ------------------------------------------------------------------------------------------------
// Running the implementation

/// downstream sink: records `TestEntry`s like the repo's `Inspector`, optionally slowly (the delay
/// sits *before* the entry becomes visible, so that a flush request answered before the inner
/// flush has finished is observable)
#[derive(Clone, Default)]
struct Rec {
    entries: Arc<Mutex<Vec<TestEntry>>>,
    delay_us: u64,
}
impl AnyEntrySink for Rec {
    fn append_any(&self, entry: impl metrique_writer::Entry + Send + 'static) {
        let e = to_test_entry(entry);
        if self.delay_us > 0 {
            std::thread::sleep(Duration::from_micros(self.delay_us));
        }
        self.entries.lock().unwrap().push(e);
    }
    fn flush_async(&self) -> FlushWait {
        FlushWait::ready()
    }
}
impl Rec {
    fn new(delay_us: u64) -> (Rec, BoxEntrySink) {
        let r = Rec { entries: Default::default(), delay_us };
        (r.clone(), BoxEntrySink::new(r))
    }
    fn entries(&self) -> Vec<TestEntry> {
        self.entries.lock().unwrap().clone()
    }
}

fn case_hash(s: &str) -> u64 {
    let mut h: u64 = 0xcbf29ce484222325;
    for b in s.bytes() {
        h ^= b as u64;
        h = h.wrapping_mul(0x100000001b3);
    }
    h
}

/// how long the harness waits for a flush answer / the worker's exit (shortened only while a
/// termination failure is being minimised; the reported case is confirmed with the full wait)
static WAIT_MS: AtomicU64 = AtomicU64::new(20_000);
fn exit_wait() -> Duration {
    Duration::from_millis(WAIT_MS.load(Ordering::Relaxed))
}

type TeeInner = TeeSink<
    KeyedAggregator<Call, BoxEntrySink>,
    TeeSink<KeyedAggregator<ByEndpointWeak, BoxEntrySink>, NonAggregatedSink<BoxEntrySink>>,
>;

struct TeeParts {
    a: Rec,
    b: Rec,
    raw: Rec,
    seen_a: usize,
    seen_b: usize,
}

fn make_tee(delay_us: u64) -> (TeeInner, TeeParts) {
    let (a, sa) = Rec::new(delay_us);
    let (b, sb) = Rec::new(delay_us);
    let (raw, sraw) = Rec::new(0);
    let tee = TeeSink::new(
        KeyedAggregator::<Call, BoxEntrySink>::new(sa),
        TeeSink::new(
            KeyedAggregator::<ByEndpointWeak, BoxEntrySink>::new(sb),
            if delay_us == 0 { non_aggregate(sraw) } else { NonAggregatedSink::new(sraw) },
        ),
    );
    (tee, TeeParts { a, b, raw, seen_a: 0, seen_b: 0 })
}

impl TeeParts {
    fn take(&mut self) -> (Vec<Agg>, Vec<Agg>) {
        let ea = self.a.entries();
        let eb = self.b.entries();
        let r = (ea[self.seen_a..].iter().map(agg_of).collect(), eb[self.seen_b..].iter().map(agg_of).collect());
        self.seen_a = ea.len();
        self.seen_b = eb.len();
        r
    }
}

fn run_keyed(c: &Case) -> Run {
    let ts = test_entry_sink();
    let mut run = Run::default();
    let r = catch(|| {
        let agg = Arc::new(Mutex::new(KeyedAggregator::<Call, BoxEntrySink>::new(ts.sink.clone())));
        let root = MutexSink::new(SharedKeyed(agg.clone()));
        let mut guards: Vec<Option<AnyGuard>> = vec![];
        let mut seen = 0;
        let mut epochs = vec![];
        for t in &c.toks {
            match (t.tag, t.idx, &t.input) {
                ('m', None, Some(i)) => agg.lock().unwrap().merge(i.call().close()),
                ('r', None, Some(i)) => agg.lock().unwrap().merge_ref(&i.call().close()),
                ('g', None, Some(i)) => guards.push(Some(Box::new(i.call().close_and_merge(root.clone())))),
                ('h', None, Some(i)) => guards.push(Some(Box::new(MergeOnDrop::new(i.call().close(), root.clone())))),
                ('d' | 'u' | 'j', Some(g), None) => {
                    if let Some(g) = guards.get_mut(g).and_then(|s| s.take()) {
                        drop_guard(t.tag, g);
                    }
                }
                ('f', None, None) => {
                    agg.lock().unwrap().flush();
                    let es = ts.inspector.entries();
                    epochs.push((es[seen..].iter().map(agg_of).collect::<Vec<_>>(), vec![]));
                    seen = es.len();
                }
                _ => panic!("harness: bad token {}", t.encode()),
            }
        }
        epochs
    });
    match r {
        Ok(e) => run.epochs = e,
        Err(p) => run.trouble.push(format!("panic:{p}")),
    }
    run
}

fn run_tee(c: &Case) -> Run {
    let mut run = Run::default();
    let (mut tee, mut parts) = make_tee(0);
    let r = catch(|| {
        let mut epochs = vec![];
        for t in &c.toks {
            match (t.tag, &t.input) {
                ('m', Some(i)) => tee.merge(i.call().close()),
                ('f', None) => {
                    tee.flush();
                    epochs.push(parts.take());
                }
                _ => panic!("harness: bad token {}", t.encode()),
            }
        }
        epochs
    });
    match r {
        Ok(e) => run.epochs = e,
        Err(p) => run.trouble.push(format!("panic:{p}")),
    }
    run.raw = Some(parts.raw.entries());
    run
}

fn run_embedded(c: &Case) -> Run {
    let mut run = Run::default();
    let raw = test_entry_sink();
    let r = catch(|| {
        // both constructors: `default()` and `new(<initial accumulator>)`
        let mut parent = ParentE {
            calls: if case_hash(&c.encode()) % 2 == 0 { Aggregate::default() } else { Aggregate::new(AggregatedPlain::default()) },
        };
        for t in &c.toks {
            match (t.tag, &t.input) {
                ('i', Some(i)) => parent.calls.insert(i.plain()),
                ('t', Some(i)) => parent.calls.insert_and_send_to(i.plain(), &raw.sink),
                ('m', Some(i)) => AggregateSink::merge(&mut parent.calls, i.plain().close()),
                ('r', Some(i)) => AggregateSinkRef::merge_ref(&mut parent.calls, &i.plain().close()),
                _ => panic!("harness: bad token {}", t.encode()),
            }
        }
        agg_of(&test_metric(parent))
    });
    match r {
        Ok(a) => run.epochs.push((vec![a], vec![])),
        Err(p) => run.trouble.push(format!("panic:{p}")),
    }
    run.raw = Some(raw.inspector.entries());
    run
}

type MSink = MutexSink<Aggregate<Plain>>;

/// `mutex`: handle 0 is the sink flattened into a parent entry, the others are clones; a close of the
/// parent / of a clone (standalone) is an observation; other handles and guards may be alive then
fn run_mutex(c: &Case) -> Run {
    let mut run = Run::default();
    let r = catch(|| {
        let mut parent = Some(ParentM { calls: if case_hash(&c.encode()) % 2 == 0 { MutexSink::new(Aggregate::default()) } else { MutexSink::default() } });
        // clones[h] for h >= 1; index 0 unused (the parent)
        let mut clones: Vec<Option<MSink>> = vec![None];
        let mut guards: Vec<Option<AnyGuard>> = vec![];
        let mut obs: Vec<Agg> = vec![];
        // a clone of handle h to work through, if it is alive
        let via = |parent: &Option<ParentM>, clones: &Vec<Option<MSink>>, h: usize| -> Option<MSink> {
            if h == 0 { parent.as_ref().map(|p| p.calls.clone()) } else { clones.get(h).and_then(|c| c.clone()) }
        };
        for t in &c.toks {
            let h = t.idx.unwrap_or(0);
            match (t.tag, &t.input) {
                ('m', Some(i)) => {
                    // merge through the handle itself (no extra clone is alive afterwards)
                    if h == 0 {
                        if let Some(p) = &parent {
                            RootSink::merge(&p.calls, i.plain().close());
                        }
                    } else if let Some(Some(s)) = clones.get(h) {
                        RootSink::merge(s, i.plain().close());
                    }
                }
                ('g', Some(i)) => {
                    if let Some(s) = via(&parent, &clones, h) {
                        guards.push(Some(Box::new(i.plain().close_and_merge(s))));
                    }
                }
                ('h', Some(i)) => {
                    if let Some(s) = via(&parent, &clones, h) {
                        guards.push(Some(Box::new(MergeOnDrop::new(i.plain().close(), s))));
                    }
                }
                ('d' | 'u' | 'j', None) => {
                    if let Some(g) = guards.get_mut(h).and_then(|s| s.take()) {
                        drop_guard(t.tag, g);
                    }
                }
                ('c', None) => {
                    if let Some(s) = via(&parent, &clones, h) {
                        clones.push(Some(s));
                    }
                }
                ('x', None) => {
                    if h != 0 {
                        if let Some(slot) = clones.get_mut(h) {
                            *slot = None;
                        }
                    }
                }
                ('C', None) => {
                    if h == 0 {
                        if let Some(p) = parent.take() {
                            obs.push(agg_of(&test_metric(p)));
                        }
                    } else if let Some(s) = clones.get_mut(h).and_then(|s| s.take()) {
                        obs.push(agg_of(&test_metric(s)));
                    }
                }
                _ => panic!("harness: bad token {}", t.encode()),
            }
        }
        for g in guards.iter_mut() {
            drop(g.take());
        }
        if let Some(p) = parent.take() {
            obs.push(agg_of(&test_metric(p)));
        }
        if let Some(s) = clones.iter_mut().find_map(|s| s.take()) {
            obs.push(agg_of(&test_metric(s)));
        }
        obs
    });
    match r {
        Ok(obs) => run.epochs = obs.into_iter().map(|a| (vec![a], vec![])).collect(),
        Err(p) => run.trouble.push(format!("panic:{p}")),
    }
    run
}

/// wrapper moved into the worker thread: its `Drop` tells the harness that the thread let go of it
struct Probe<S> {
    inner: S,
    dropped: mpsc::Sender<()>,
}
impl<T, S: AggregateSink<T>> AggregateSink<T> for Probe<S> {
    fn merge(&mut self, entry: T) {
        self.inner.merge(entry)
    }
}
impl<S: FlushableSink> FlushableSink for Probe<S> {
    fn flush(&mut self) {
        self.inner.flush()
    }
}
impl<S> Drop for Probe<S> {
    fn drop(&mut self) {
        let _ = self.dropped.send(());
    }
}

type Worker = WorkerSink<CallEntry, Probe<TeeInner>>;


fn rt() -> tokio::runtime::Runtime {
    tokio::runtime::Builder::new_current_thread().enable_time().build().unwrap()
}

/// `flush().await` with a generous bound; `Err` describes a flush that did not complete
fn flush_blocking(rt: &tokio::runtime::Runtime, w: &Worker) -> Result<(), String> {
    match catch(|| rt.block_on(async { tokio::time::timeout(exit_wait(), w.flush()).await })) {
        Ok(Ok(())) => Ok(()),
        Ok(Err(_)) => Err("flush-timeout".into()),
        Err(p) => Err(format!("flush-panic:{p}")),
    }
}

fn run_worker(c: &Case) -> Run {
    let mut run = Run::default();
    // a third of the cases run with a slow downstream sink (deterministic in the case text)
    let delay = if case_hash(&c.encode()) % 3 == 0 { 300 } else { 0 };
    let (tee, mut parts) = make_tee(delay);
    let (dtx, drx) = mpsc::channel();
    let rt = rt();
    let first: Worker = WorkerSink::new(Probe { inner: tee, dropped: dtx }, Duration::from_secs(3600));
    let mut handles: Vec<Option<Worker>> = vec![Some(first)];
    let mut guards: Vec<Option<AnyGuard>> = vec![];
    let r = catch(|| {
        for t in &c.toks {
            let live = |handles: &Vec<Option<Worker>>, h: usize| handles.get(h).map(|x| x.is_some()).unwrap_or(false);
            match (t.tag, t.idx, &t.input) {
                ('s', Some(h), Some(i)) => {
                    if live(&handles, h) {
                        handles[h].as_ref().unwrap().send(i.call().close());
                    }
                }
                ('g', Some(h), Some(i)) => {
                    if live(&handles, h) {
                        guards.push(Some(Box::new(i.call().close_and_merge(handles[h].as_ref().unwrap().clone()))));
                    }
                }
                ('h', Some(h), Some(i)) => {
                    if live(&handles, h) {
                        guards.push(Some(Box::new(MergeOnDrop::new(i.call().close(), handles[h].as_ref().unwrap().clone()))));
                    }
                }
                ('d' | 'u' | 'j', Some(g), None) => {
                    if let Some(g) = guards.get_mut(g).and_then(|s| s.take()) {
                        drop_guard(t.tag, g);
                    }
                }
                ('F', Some(h), None) => {
                    if live(&handles, h) {
                        match flush_blocking(&rt, handles[h].as_ref().unwrap()) {
                            Ok(()) => run.epochs.push(parts.take()),
                            Err(e) => {
                                run.trouble.push(e);
                                return;
                            }
                        }
                    }
                }
                ('c', Some(h), None) => {
                    if live(&handles, h) {
                        let n = handles[h].as_ref().unwrap().clone();
                        handles.push(Some(n));
                    }
                }
                ('x', Some(h), None) => {
                    if live(&handles, h) {
                        handles[h] = None;
                    }
                }
                _ => panic!("harness: bad token {}", t.encode()),
            }
        }
    });
    if let Err(p) = r {
        run.trouble.push(format!("panic:{p}"));
    }
    for g in guards.iter_mut() {
        drop(g.take());
    }
    handles.clear();
    // the thread must emit what it holds and let go of the inner sink
    let exited = drx.recv_timeout(exit_wait()).is_ok();
    run.exited = Some(exited);
    run.end_epoch = Some(run.epochs.len());
    run.epochs.push(parts.take());
    run.raw = Some(parts.raw.entries());
    if exited {
        // nothing may be emitted after the inner sink was dropped; and nothing twice
        std::thread::yield_now();
        let (a, b) = parts.take();
        if !a.is_empty() || !b.is_empty() {
            run.trouble.push("emitted-after-exit".into());
        }
    }
    run
}

// ---- the gated worker: several flush requests in flight, deterministically ----------------------

/// the harness-controlled gate in front of the inner sink's `flush`
#[derive(Default)]
struct Gate {
    closed: Mutex<bool>,
    cv: std::sync::Condvar,
}
impl Gate {
    fn set(&self, closed: bool) {
        *self.closed.lock().unwrap() = closed;
        self.cv.notify_all();
    }
    fn pass(&self) {
        let mut g = self.closed.lock().unwrap();
        while *g {
            g = self.cv.wait(g).unwrap();
        }
    }
}

/// inner sink whose `flush` waits at the gate before it flushes (it only slows the worker thread
/// down at a chosen point; merges are not held)
struct Gated<S> {
    inner: S,
    gate: Arc<Gate>,
}
impl<T, S: AggregateSink<T>> AggregateSink<T> for Gated<S> {
    fn merge(&mut self, entry: T) {
        self.inner.merge(entry)
    }
}
impl<S: FlushableSink> FlushableSink for Gated<S> {
    fn flush(&mut self) {
        self.gate.pass();
        self.inner.flush()
    }
}

type GWorker = WorkerSink<CallEntry, Probe<Gated<TeeInner>>>;
type FlushFut = std::pin::Pin<Box<dyn std::future::Future<Output = ()>>>;

/// how long a closed-gate watch observes the requests in flight (they must all stay pending)
const WATCH: Duration = Duration::from_millis(5);

/// polls a flush future once; `Err` = it panicked (the worker dropped the reply channel)
fn poll_once(f: &mut FlushFut) -> Result<bool, String> {
    let mut cx = std::task::Context::from_waker(std::task::Waker::noop());
    catch(|| f.as_mut().poll(&mut cx).is_ready())
}

struct GState {
    parts: TeeParts,
    /// requests in flight: (number, future owning a clone of the handle)
    in_flight: Vec<(usize, FlushFut)>,
    started: usize,
    all_a: Vec<Agg>,
    all_b: Vec<Agg>,
    reported_a: usize,
    reported_b: usize,
}

impl GState {
    fn refresh(&mut self) {
        let (a, b) = self.parts.take();
        self.all_a.extend(a);
        self.all_b.extend(b);
    }
    fn emitted(&mut self) -> (Vec<Agg>, Vec<Agg>) {
        self.refresh();
        (self.all_a.clone(), self.all_b.clone())
    }
    fn delta(&mut self) -> (Vec<Agg>, Vec<Agg>) {
        self.refresh();
        let d = (self.all_a[self.reported_a..].to_vec(), self.all_b[self.reported_b..].to_vec());
        self.reported_a = self.all_a.len();
        self.reported_b = self.all_b.len();
        d
    }
    /// waits (bounded) until every request in flight has completed, then drops the futures
    fn wait_all(&mut self) -> Result<(), String> {
        let t0 = std::time::Instant::now();
        loop {
            let mut i = 0;
            while i < self.in_flight.len() {
                match poll_once(&mut self.in_flight[i].1) {
                    Ok(true) => {
                        self.in_flight.remove(i);
                    }
                    Ok(false) => i += 1,
                    Err(p) => return Err(format!("flush-panic:{p}")),
                }
            }
            if self.in_flight.is_empty() {
                return Ok(());
            }
            if t0.elapsed() > exit_wait() {
                return Err("flush-timeout".into());
            }
            std::thread::sleep(Duration::from_micros(100));
        }
    }
}

fn run_gated(c: &Case) -> Run {
    let mut run = Run::default();
    let (tee, parts) = make_tee(0);
    let (dtx, drx) = mpsc::channel();
    let gate = Arc::new(Gate::default());
    let first: GWorker =
        WorkerSink::new(Probe { inner: Gated { inner: tee, gate: gate.clone() }, dropped: dtx }, Duration::from_secs(3600));
    let mut handles: Vec<Option<GWorker>> = vec![Some(first)];
    let mut st = GState { parts, in_flight: vec![], started: 0, all_a: vec![], all_b: vec![], reported_a: 0, reported_b: 0 };
    let mut closed = false;
    let mut exited = false;
    // wait for the requests in flight; if no sender is left afterwards, for the worker's exit
    let sync = |st: &mut GState, handles: &Vec<Option<GWorker>>, exited: &mut bool, run: &mut Run| -> bool {
        if let Err(e) = st.wait_all() {
            run.trouble.push(e);
            return false;
        }
        if !*exited && handles.iter().all(|h| h.is_none()) {
            *exited = drx.recv_timeout(exit_wait()).is_ok();
            if !*exited {
                run.exited = Some(false);
                return false;
            }
        }
        true
    };
    let mut ok = true;
    for t in &c.toks {
        let live = |handles: &Vec<Option<GWorker>>, h: usize| handles.get(h).map(|x| x.is_some()).unwrap_or(false);
        match (t.tag, t.idx, &t.input) {
            ('s', Some(h), Some(i)) => {
                if live(&handles, h) {
                    handles[h].as_ref().unwrap().send(i.call().close());
                }
            }
            ('b', Some(n), Some(i)) => {
                // n entries in a row through handle 0: send, RootSink::merge and both guard kinds in turn
                if live(&handles, 0) {
                    let w = handles[0].as_ref().unwrap();
                    for k in 0..n {
                        match k % 4 {
                            0 => w.send(i.call().close()),
                            1 => RootSink::merge(w, i.call().close()),
                            2 => drop(i.call().close_and_merge(w.clone())),
                            _ => drop(MergeOnDrop::new(i.call().close(), w.clone())),
                        }
                    }
                }
            }
            ('c', Some(h), None) => {
                if live(&handles, h) {
                    let n = handles[h].as_ref().unwrap().clone();
                    handles.push(Some(n));
                }
            }
            ('x', Some(h), None) => {
                if live(&handles, h) {
                    handles[h] = None;
                }
            }
            ('A', Some(h), None) => {
                if live(&handles, h) {
                    let own = handles[h].as_ref().unwrap().clone();
                    let mut fut: FlushFut = Box::pin(async move { own.flush().await });
                    let k = st.started;
                    st.started += 1;
                    // the first poll puts the request on the channel
                    match poll_once(&mut fut) {
                        Ok(ready) => {
                            if closed {
                                let emitted = st.emitted();
                                run.gobs.push(GObs::Flush { k, ready, emitted });
                            }
                            // (with the gate open the worker may have answered already: a completed
                            // future must not be polled again)
                            if !ready {
                                st.in_flight.push((k, fut));
                            }
                        }
                        Err(p) => {
                            run.trouble.push(format!("flush-panic:{p}"));
                            ok = false;
                        }
                    }
                }
            }
            ('P', None, None) => {
                if closed {
                    let n = st.in_flight.len();
                    let t0 = std::time::Instant::now();
                    let mut ready = vec![];
                    loop {
                        let mut i = 0;
                        while i < st.in_flight.len() {
                            match poll_once(&mut st.in_flight[i].1) {
                                Ok(true) => {
                                    ready.push(st.in_flight[i].0);
                                    st.in_flight.remove(i);
                                }
                                Ok(false) => i += 1,
                                Err(p) => {
                                    run.trouble.push(format!("flush-panic:{p}"));
                                    ok = false;
                                    break;
                                }
                            }
                        }
                        if !ok || t0.elapsed() > WATCH {
                            break;
                        }
                        std::thread::sleep(Duration::from_micros(200));
                    }
                    let emitted = st.emitted();
                    run.gobs.push(GObs::Watch { ready, in_flight: n, emitted });
                }
            }
            ('G', Some(0), None) => {
                // closing a closed gate is ignored (waiting here would wait for the gate itself)
                if !closed {
                    ok = sync(&mut st, &handles, &mut exited, &mut run);
                    closed = true;
                    gate.set(true);
                }
            }
            ('G', Some(1), None) => {
                closed = false;
                gate.set(false);
                ok = sync(&mut st, &handles, &mut exited, &mut run);
                if ok {
                    let delta = st.delta();
                    run.gobs.push(GObs::Sync { upto: st.started, delta });
                }
            }
            _ => {
                run.trouble.push(format!("harness: bad token {}", t.encode()));
                ok = false;
            }
        }
        if !ok {
            break;
        }
    }
    gate.set(false);
    if ok {
        ok = sync(&mut st, &handles, &mut exited, &mut run);
    }
    st.in_flight.clear();
    handles.clear();
    if !exited {
        exited = drx.recv_timeout(exit_wait()).is_ok();
    }
    run.exited = Some(exited);
    if ok {
        let delta = st.delta();
        run.gobs.push(GObs::End { delta });
    }
    run.raw = Some(st.parts.raw.entries());
    run
}

/// `cap`: the three distributions as canonical strings
fn run_cap(c: &Case) -> Run {
    let mut run = Run::default();
    let r = catch(|| {
        let mut parent = ParentC { caps: Aggregate::default() };
        for t in &c.toks {
            match (t.tag, &t.input) {
                ('i', Some(i)) => parent.caps.insert(Cap { c0: Obs(i.obs.clone()), c1: Obs(i.obs.clone()), c2: Obs(i.obs.clone()) }),
                _ => panic!("harness: bad token {}", t.encode()),
            }
        }
        let e = test_metric(parent);
        ["c0", "c1", "c2"].iter().map(|f| Agg { dist: dist_of(e.metrics.get(*f)), ..Default::default() }).collect::<Vec<_>>()
    });
    match r {
        Ok(a) => run.epochs.push((a, vec![])),
        Err(p) => run.trouble.push(format!("panic:{p}")),
    }
    run
}

fn show_dist(a: &Agg) -> String {
    match &a.dist {
        None => "?".to_string(),
        Some(d) if d.is_empty() => "-".to_string(),
        Some(d) => d.iter().map(|(v, c)| format!("{v}*{c}")).collect::<Vec<_>>().join("+"),
    }
}

/// `keyonly`: per flush the emitted endpoints
fn run_keyonly(c: &Case) -> Run {
    let ts = test_entry_sink();
    let mut run = Run::default();
    let r = catch(|| {
        let mut agg: KeyedAggregator<KeyOnly, BoxEntrySink> = KeyedAggregator::new(ts.sink.clone());
        let mut seen = 0;
        let mut epochs = vec![];
        for t in &c.toks {
            match (t.tag, &t.input) {
                ('m', Some(i)) => agg.merge(KeyOnly { endpoint: i.endpoint.clone() }.close()),
                ('f', None) => {
                    agg.flush();
                    let es = ts.inspector.entries();
                    epochs.push((es[seen..].iter().map(agg_of).collect::<Vec<_>>(), vec![]));
                    seen = es.len();
                }
                _ => panic!("harness: bad token {}", t.encode()),
            }
        }
        epochs
    });
    match r {
        Ok(e) => run.epochs = e,
        Err(p) => run.trouble.push(format!("panic:{p}")),
    }
    run
}

fn run_impl(c: &Case) -> Run {
    match c.pipeline() {
        "cap" => run_cap(c),
        "keyonly" => run_keyonly(c),
        "gated" => run_gated(c),
        "keyed" => run_keyed(c),
        "tee" => run_tee(c),
        "embedded" => run_embedded(c),
        "mutex" => run_mutex(c),
        "worker" => run_worker(c),
        p => Run { trouble: vec![format!("harness: unknown pipeline {p}")], ..Default::default() },
    }
}

// ------------------------------------------------------------------------------------------------
// The property oracle (independent of the Lean model)

#[derive(Clone, Debug, Default, PartialEq)]
struct Totals {
    n: u64,
    bytes: u64,
    last: Option<u64>,
    dist: BTreeMap<u64, u64>,
    opt: u64,
    inner: u64,
}

impl Totals {
    fn add(&mut self, i: &In) {
        self.n += 1;
        self.bytes += i.bytes;
        self.last = Some(i.last);
        for (v, c) in &i.obs {
            if *c > 0 {
                *self.dist.entry(*v).or_insert(0) += c;
            }
        }
        self.opt += i.opt.unwrap_or(0);
        self.inner += i.inner;
    }
}

/// compares one emitted aggregate with the totals of its inputs
fn check_agg(a: &Agg, t: &Totals) -> Option<String> {
    if a.bytes != Some(t.bytes) {
        return Some(format!("sum field bytes = {:?}, inputs sum to {}", a.bytes, t.bytes));
    }
    if a.opt != Some(t.opt) {
        return Some(format!("sum field opt = {:?}, inputs sum to {}", a.opt, t.opt));
    }
    if a.inner != Some(t.inner) {
        return Some(format!("flattened sum field inner_count = {:?}, inputs sum to {}", a.inner, t.inner));
    }
    if a.last != t.last {
        return Some(format!("keep-last field = {:?}, last input had {:?}", a.last, t.last));
    }
    match &a.dist {
        None => return Some("distribution holds a value that is no input observation (not an integer)".into()),
        Some(d) => {
            let mut got: BTreeMap<u64, u64> = BTreeMap::new();
            for (v, c) in d {
                if got.insert(*v, *c).is_some() {
                    return Some(format!("distribution lists value {v} twice"));
                }
            }
            if got != t.dist {
                return Some(format!("distribution {:?} differs from the inputs' observations {:?}", got, t.dist));
            }
        }
    }
    None
}

/// one epoch: exactly one aggregate per distinct key, each conserving its inputs
fn check_epoch<K: Ord + Clone + std::fmt::Debug>(
    what: &str,
    inputs: &[In],
    key_of_in: impl Fn(&In) -> K,
    aggs: &[Agg],
    key_of_agg: impl Fn(&Agg) -> Option<K>,
) -> Option<String> {
    let mut want: BTreeMap<K, Totals> = BTreeMap::new();
    for i in inputs {
        want.entry(key_of_in(i)).or_default().add(i);
    }
    let mut seen: BTreeMap<K, ()> = BTreeMap::new();
    for a in aggs {
        let Some(k) = key_of_agg(a) else { return Some(format!("{what}: aggregate without its key fields")) };
        if seen.insert(k.clone(), ()).is_some() {
            return Some(format!("{what}: two aggregates for key {k:?} in one flush"));
        }
        match want.get(&k) {
            None => return Some(format!("{what}: aggregate for key {k:?} which no input of the epoch has")),
            Some(t) => {
                if let Some(w) = check_agg(a, t) {
                    return Some(format!("{what}: key {k:?}: {w}"));
                }
            }
        }
    }
    if seen.len() != want.len() {
        let missing: Vec<_> = want.keys().filter(|k| !seen.contains_key(k)).collect();
        return Some(format!("{what}: no aggregate emitted for key(s) {missing:?}: their inputs are lost"));
    }
    None
}

fn key_a(i: &In) -> (String, u64) {
    (i.endpoint.clone(), i.shard as u64)
}
fn agg_key_a(a: &Agg) -> Option<(String, u64)> {
    Some((a.endpoint.clone()?, a.shard?))
}
fn key_b(i: &In) -> String {
    i.endpoint.clone()
}
fn agg_key_b(a: &Agg) -> Option<String> {
    if a.shard.is_some() {
        return None;
    }
    a.endpoint.clone()
}

/// expected epochs (inputs per observation point) of a deterministic pipeline, from the tokens alone
fn expected_epochs(c: &Case) -> (Vec<Vec<In>>, Vec<In>) {
    let mut epochs = vec![];
    let mut cur = vec![];
    let mut raw = vec![];
    match c.pipeline() {
        "keyed" | "tee" => {
            let mut guards: Vec<Option<In>> = vec![];
            for t in &c.toks {
                match (t.tag, t.idx, &t.input) {
                    ('f', _, _) => epochs.push(std::mem::take(&mut cur)),
                    ('g' | 'h', _, Some(i)) => guards.push(Some(i.clone())),
                    ('d' | 'u' | 'j', Some(g), _) => {
                        // a guard going out of scope merges its entry, whatever the cause
                        if let Some(Some(i)) = guards.get_mut(g).map(|s| s.take()) {
                            cur.push(i);
                        }
                    }
                    (_, _, Some(i)) => {
                        cur.push(i.clone());
                        raw.push(i.clone());
                    }
                    _ => {}
                }
            }
        }
        "embedded" => {
            for t in &c.toks {
                if let Some(i) = &t.input {
                    cur.push(i.clone());
                    if t.tag == 't' {
                        raw.push(i.clone());
                    }
                }
            }
            epochs.push(cur);
        }
        "mutex" => {
            // every close returns what was merged (through any handle or guard) since the previous close
            let mut handles = vec![true];
            let mut guards: Vec<Option<In>> = vec![];
            for t in &c.toks {
                let h = t.idx.unwrap_or(0);
                let live = handles.get(h).copied().unwrap_or(false);
                match (t.tag, &t.input) {
                    ('g' | 'h', Some(i)) if live => guards.push(Some(i.clone())),
                    ('m', Some(i)) if live => cur.push(i.clone()),
                    ('d' | 'u' | 'j', None) => {
                        if let Some(Some(i)) = guards.get_mut(h).map(|s| s.take()) {
                            cur.push(i);
                        }
                    }
                    ('c', None) if live => handles.push(true),
                    ('x', None) if live && h != 0 => handles[h] = false,
                    ('C', None) if live => {
                        handles[h] = false;
                        epochs.push(std::mem::take(&mut cur));
                    }
                    _ => {}
                }
            }
            cur.extend(guards.into_iter().flatten());
            if handles[0] {
                handles[0] = false;
                epochs.push(std::mem::take(&mut cur));
            }
            if handles.iter().any(|h| *h) {
                epochs.push(std::mem::take(&mut cur));
            }
        }
        "worker" => {
            let mut handles = vec![true];
            let mut guards: Vec<Option<In>> = vec![];
            for t in &c.toks {
                let live = t.idx.map(|h| handles.get(h).copied().unwrap_or(false)).unwrap_or(false);
                match (t.tag, t.idx, &t.input) {
                    ('s', _, Some(i)) if live => {
                        cur.push(i.clone());
                        raw.push(i.clone());
                    }
                    ('g' | 'h', _, Some(i)) if live => guards.push(Some(i.clone())),
                    ('d' | 'u' | 'j', Some(g), _) => {
                        if let Some(Some(i)) = guards.get_mut(g).map(|s| s.take()) {
                            cur.push(i.clone());
                            raw.push(i);
                        }
                    }
                    ('F', _, _) if live => epochs.push(std::mem::take(&mut cur)),
                    ('c', _, _) if live => handles.push(true),
                    ('x', Some(h), _) if live => handles[h] = false,
                    _ => {}
                }
            }
            for i in guards.into_iter().flatten() {
                cur.push(i.clone());
                raw.push(i);
            }
            epochs.push(cur);
        }
        _ => {}
    }
    (epochs, raw)
}

/// canonical text of the aggregate a group of inputs must produce (written from the property, for
/// multiset comparison of emissions whose epoch boundaries are not visible)
fn want_agg(endpoint: &str, shard: Option<u64>, t: &Totals) -> String {
    let dist = if t.dist.is_empty() { "-".to_string() } else { t.dist.iter().map(|(v, c)| format!("{v}*{c}")).collect::<Vec<_>>().join("+") };
    format!(
        "{}:{}:{}:{}:{}:{}:{}",
        hex(endpoint.as_bytes()),
        shard.map(|s| s.to_string()).unwrap_or("-".into()),
        t.bytes,
        t.last.map(|v| v.to_string()).unwrap_or("-".into()),
        dist,
        t.opt,
        t.inner
    )
}

fn want_epoch(inputs: &[In]) -> (Vec<String>, Vec<String>) {
    let mut a: BTreeMap<(String, u64), Totals> = BTreeMap::new();
    let mut b: BTreeMap<String, Totals> = BTreeMap::new();
    for i in inputs {
        a.entry(key_a(i)).or_default().add(i);
        b.entry(key_b(i)).or_default().add(i);
    }
    (
        a.iter().map(|((e, s), t)| want_agg(e, Some(*s), t)).collect(),
        b.iter().map(|(e, t)| want_agg(e, None, t)).collect(),
    )
}

/// is `want` a sub-multiset of `have`?
fn sub_multiset(want: &[String], have: &[String]) -> Option<String> {
    let mut h: BTreeMap<&String, i64> = BTreeMap::new();
    for x in have {
        *h.entry(x).or_insert(0) += 1;
    }
    for w in want {
        let e = h.entry(w).or_insert(0);
        *e -= 1;
        if *e < 0 {
            return Some(w.clone());
        }
    }
    None
}

/// the `gated` pipeline: the channel order is the order of the operations (a request is on the
/// channel when `A` returns), so the epoch closed by flush request k is known from the tokens
fn oracle_gated(c: &Case, run: &Run) -> Option<String> {
    // epochs[k] = inputs sent after request k-1 and before request k; rest = inputs after the last request
    let mut handles = vec![true];
    let mut epochs: Vec<Vec<In>> = vec![];
    let mut cur: Vec<In> = vec![];
    let mut raw: Vec<In> = vec![];
    for t in &c.toks {
        let live = t.idx.map(|h| handles.get(h).copied().unwrap_or(false)).unwrap_or(false);
        match (t.tag, t.idx, &t.input) {
            ('s', _, Some(i)) if live => {
                cur.push(i.clone());
                raw.push(i.clone());
            }
            ('b', Some(n), Some(i)) if handles[0] => {
                for _ in 0..n {
                    cur.push(i.clone());
                    raw.push(i.clone());
                }
            }
            ('A', _, _) if live => epochs.push(std::mem::take(&mut cur)),
            ('c', _, _) if live => handles.push(true),
            ('x', Some(h), _) if live => handles[h] = false,
            _ => {}
        }
    }
    let strings = |l: &[Agg]| l.iter().map(show_agg).collect::<Vec<_>>();
    // a completed request: everything sent before it must already have been emitted
    let completed = |k: usize, emitted: &(Vec<Agg>, Vec<Agg>)| -> Option<String> {
        let (mut wa, mut wb) = (vec![], vec![]);
        for e in &epochs[..=k.min(epochs.len().saturating_sub(1))] {
            let (a, b) = want_epoch(e);
            wa.extend(a);
            wb.extend(b);
        }
        if let Some(m) = sub_multiset(&wa, &strings(&emitted.0)) {
            return Some(format!("flush request #{k} completed but the aggregate {m} of entries sent before it has not been emitted (branch A)"));
        }
        if let Some(m) = sub_multiset(&wb, &strings(&emitted.1)) {
            return Some(format!("flush request #{k} completed but the aggregate {m} of entries sent before it has not been emitted (branch B)"));
        }
        None
    };
    let mut reported = 0usize; // epochs already accounted for by a Sync
    for g in &run.gobs {
        match g {
            GObs::Flush { k, ready, emitted } => {
                if *ready {
                    if let Some(w) = completed(*k, emitted) {
                        return Some(w);
                    }
                }
            }
            GObs::Watch { ready, emitted, .. } => {
                for k in ready {
                    if let Some(w) = completed(*k, emitted) {
                        return Some(w);
                    }
                }
            }
            GObs::Sync { upto, delta } => {
                // every request issued so far has completed: exactly the epochs they close were emitted
                // (plus, when the worker exited meanwhile, the rest)
                let (mut wa, mut wb) = (vec![], vec![]);
                for e in &epochs[reported.min(epochs.len())..(*upto).min(epochs.len())] {
                    let (a, b) = want_epoch(e);
                    wa.extend(a);
                    wb.extend(b);
                }
                if let Some(m) = sub_multiset(&wa, &strings(&delta.0)).or_else(|| sub_multiset(&wb, &strings(&delta.1))) {
                    return Some(format!(
                        "flush requests up to #{} completed but the aggregate {m} of entries sent before them has not been emitted",
                        upto.saturating_sub(1)
                    ));
                }
                reported = *upto;
            }
            GObs::End { .. } => {}
        }
    }
    // over the whole run: per epoch one aggregate per key, nothing else, nothing twice
    let (mut wa, mut wb) = (vec![], vec![]);
    for e in epochs.iter().chain(std::iter::once(&cur)) {
        let (a, b) = want_epoch(e);
        wa.extend(a);
        wb.extend(b);
    }
    let (mut ga, mut gb) = (vec![], vec![]);
    for g in &run.gobs {
        if let GObs::Sync { delta, .. } | GObs::End { delta } = g {
            ga.extend(strings(&delta.0));
            gb.extend(strings(&delta.1));
        }
    }
    wa.sort();
    wb.sort();
    ga.sort();
    gb.sort();
    if wa != ga {
        return Some(format!("over the whole run branch A emitted {ga:?}, the epochs' inputs give {wa:?}"));
    }
    if wb != gb {
        return Some(format!("over the whole run branch B emitted {gb:?}, the epochs' inputs give {wb:?}"));
    }
    if let Some(r) = &run.raw {
        let want = if raw.is_empty() { "-".to_string() } else { raw.iter().map(|i| format!("{}:{}:{}", hex(i.endpoint.as_bytes()), i.shard, i.bytes)).collect::<Vec<_>>().join(";") };
        if show_raw(r) != want {
            return Some(format!("non-aggregated branch received {}, the inputs were {want}", show_raw(r)));
        }
    }
    None
}

fn oracle(c: &Case, run: &Run) -> Option<String> {
    if c.pipeline() == "cap" {
        if let Some(t) = run.trouble.first() {
            return Some(format!("run failed: {t}"));
        }
        let mut want: BTreeMap<u64, u64> = BTreeMap::new();
        for t in &c.toks {
            for (v, n) in t.input.iter().flat_map(|i| i.obs.iter()) {
                if *n > 0 {
                    *want.entry(*v).or_insert(0) += n;
                }
            }
        }
        for (n, a) in run.epochs[0].0.iter().enumerate() {
            let t = Totals { dist: want.clone(), ..Default::default() };
            let probe = Agg { bytes: Some(0), opt: Some(0), inner: Some(0), last: None, ..a.clone() };
            if let Some(w) = check_agg(&probe, &t) {
                return Some(format!("SortAndMerge with inline capacity {n}: {w}"));
            }
        }
        return None;
    }
    if c.pipeline() == "keyonly" {
        if let Some(t) = run.trouble.first() {
            return Some(format!("run failed: {t}"));
        }
        let mut epochs: Vec<std::collections::BTreeSet<String>> = vec![];
        let mut cur = std::collections::BTreeSet::new();
        for t in &c.toks {
            match (t.tag, &t.input) {
                ('f', _) => epochs.push(std::mem::take(&mut cur)),
                (_, Some(i)) => {
                    cur.insert(i.endpoint.clone());
                }
                _ => {}
            }
        }
        if epochs.len() != run.epochs.len() {
            return Some(format!("{} flush observations for {} flushes", run.epochs.len(), epochs.len()));
        }
        for (n, (want, (got, _))) in epochs.iter().zip(run.epochs.iter()).enumerate() {
            let mut g: Vec<String> = got.iter().map(|a| a.endpoint.clone().unwrap_or_default()).collect();
            g.sort();
            if g != want.iter().cloned().collect::<Vec<_>>() {
                return Some(format!("flush #{n}: a key-only aggregate emitted keys {g:?}, the epoch's distinct keys are {want:?}"));
            }
        }
        return None;
    }
    if c.pipeline() == "gated" {
        if let Some(t) = run.trouble.first() {
            return Some(match t.as_str() {
                "flush-timeout" => "a flush request did not complete within 20 s although the gate was open".into(),
                t => format!("run failed: {t}"),
            });
        }
        if run.exited == Some(false) {
            return Some("worker thread still holds its inner sink 20 s after the last handle was dropped (it did not terminate)".into());
        }
        return oracle_gated(c, run);
    }
    if let Some(t) = run.trouble.first() {
        return Some(match t.as_str() {
            "flush-timeout" => "a flush request did not complete within 20 s".into(),
            "emitted-after-exit" => "aggregates were emitted after the worker let go of its sink".into(),
            t => format!("run failed: {t}"),
        });
    }
    if run.exited == Some(false) {
        return Some("worker thread still holds its inner sink 20 s after the last handle was dropped (it did not terminate)".into());
    }
    let (want, want_raw) = expected_epochs(c);
    if want.len() != run.epochs.len() {
        return Some(format!("{} flush observations for {} flushes", run.epochs.len(), want.len()));
    }
    let keyless = matches!(c.pipeline(), "embedded" | "mutex");
    for (n, (inputs, (a, b))) in want.iter().zip(run.epochs.iter()).enumerate() {
        if keyless {
            // one aggregate, always (also for no input): the key-less accumulator
            if a.len() != 1 {
                return Some(format!("{} aggregates from an embedded aggregate", a.len()));
            }
            let mut t = Totals::default();
            inputs.iter().for_each(|i| t.add(i));
            if a[0].endpoint.is_some() || a[0].shard.is_some() {
                return Some("key fields in a key-less aggregate".into());
            }
            if let Some(w) = check_agg(&a[0], &t) {
                return Some(format!("embedded aggregate: {w}"));
            }
            continue;
        }
        if let Some(w) = check_epoch(&format!("flush #{n} branch A"), inputs, key_a, a, agg_key_a) {
            return Some(w);
        }
        if matches!(c.pipeline(), "tee" | "worker") {
            if let Some(w) = check_epoch(&format!("flush #{n} branch B"), inputs, key_b, b, agg_key_b) {
                return Some(w);
            }
        }
    }
    if let Some(raw) = &run.raw {
        let got = show_raw(raw);
        let want = if want_raw.is_empty() {
            "-".to_string()
        } else {
            want_raw.iter().map(|i| format!("{}:{}:{}", hex(i.endpoint.as_bytes()), i.shard, i.bytes)).collect::<Vec<_>>().join(";")
        };
        let got = if c.pipeline() == "embedded" {
            // the raw entries of `Plain` carry no key fields
            got
        } else {
            got
        };
        let want = if c.pipeline() == "embedded" {
            if want_raw.is_empty() { "-".to_string() } else { want_raw.iter().map(|i| format!("-:-:{}", i.bytes)).collect::<Vec<_>>().join(";") }
        } else {
            want
        };
        if got != want {
            return Some(format!("non-aggregated branch received {got}, the inputs were {want}"));
        }
    }
    None
}

// ------------------------------------------------------------------------------------------------
// Generators

const ENDPOINTS: &[&str] = &["", "a", "b", "c", "ab", "ba", "aa", "é", "GetItem", "PutItem", "a b", "ab\u{0}"];

fn gen_input(rng: &mut Rng, nasty: bool) -> In {
    let endpoint = if nasty && rng.chance(1, 8) {
        // a fresh long key
        format!("k{}", rng.below(1_000_000))
    } else if rng.chance(3, 4) {
        ENDPOINTS[rng.below(5) as usize].to_string()
    } else {
        rng.pick(ENDPOINTS).to_string()
    };
    let small = |rng: &mut Rng| match rng.below(8) {
        0 => 0,
        1 => 1,
        2 if nasty => 1u64 << 40,
        _ => rng.below(1000),
    };
    let nobs = match rng.below(6) {
        0 => 0,
        1 | 2 | 3 => 1,
        _ => rng.range(2, 4),
    };
    let obs = (0..nobs)
        .map(|_| {
            let v = match rng.below(6) {
                0 => 0,
                1 if nasty => (1u64 << 44) + rng.below(3),
                _ => rng.below(6),
            };
            let c = match rng.below(6) {
                0 if nasty => 0,
                1 => rng.range(2, 5),
                _ => 1,
            };
            (v, c)
        })
        .collect();
    In {
        endpoint,
        shard: rng.below(3) as u32,
        bytes: small(rng),
        last: small(rng),
        obs,
        opt: if rng.chance(1, 2) { Some(small(rng)) } else { None },
        inner: small(rng),
    }
}

/// how a guard goes out of scope: plain drop, unwinding caught on this thread, unwinding on a joined thread
fn drop_tag(rng: &mut Rng) -> char {
    match rng.below(10) {
        0..=4 => 'd',
        5..=7 => 'u',
        _ => 'j',
    }
}

/// guard kind: `g` CloseAndMergeOnDrop (`close_and_merge`), `h` MergeOnDrop over the closed entry
fn guard_tag(rng: &mut Rng) -> char {
    if rng.chance(3, 5) { 'g' } else { 'h' }
}

fn gen_case(rng: &mut Rng, pipeline: &str, nasty: bool, max_len: u64) -> Case {
    let n = if rng.chance(1, 10) { rng.range(0, 2) } else { rng.range(1, max_len) };
    let mut toks = vec![];
    match pipeline {
        "keyed" | "tee" => {
            let pflush = rng.range(1, 6);
            let mut kguards = 0usize;
            for _ in 0..n {
                if rng.chance(pflush, 20) {
                    toks.push(Tok::new('f', None, None));
                } else if pipeline == "keyed" && rng.chance(1, 4) {
                    // merge-on-drop guards over a `RootSink` in front of the keyed aggregator
                    if kguards > 0 && rng.chance(1, 2) {
                        toks.push(Tok::new(drop_tag(rng), Some(rng.below(kguards as u64 + if nasty { 1 } else { 0 }) as usize), None));
                    } else {
                        toks.push(Tok::new(guard_tag(rng), None, Some(gen_input(rng, nasty))));
                        kguards += 1;
                    }
                } else {
                    let tag = if pipeline == "keyed" && rng.chance(1, 3) { 'r' } else { 'm' };
                    toks.push(Tok::new(tag, None, Some(gen_input(rng, nasty))));
                }
            }
            if rng.chance(4, 5) {
                toks.push(Tok::new('f', None, None));
            }
        }
        "cap" => {
            for _ in 0..n {
                toks.push(Tok::new('i', None, Some(gen_input(rng, nasty))));
            }
        }
        "keyonly" => {
            for _ in 0..n {
                if rng.chance(1, 5) {
                    toks.push(Tok::new('f', None, None));
                } else {
                    toks.push(Tok::new('m', None, Some(gen_input(rng, nasty))));
                }
            }
            toks.push(Tok::new('f', None, None));
        }
        "embedded" => {
            for _ in 0..n {
                let tag = *rng.pick(&['i', 'i', 't', 'm', 'r']);
                toks.push(Tok::new(tag, None, Some(gen_input(rng, nasty))));
            }
        }
        "mutex" => {
            let mut guards = 0usize;
            let mut handles = vec![true];
            for _ in 0..n {
                let live: Vec<usize> = (0..handles.len()).filter(|h| handles[*h]).collect();
                let h = if live.is_empty() || (nasty && rng.chance(1, 12)) { rng.below(handles.len() as u64 + 1) as usize } else { *rng.pick(&live) };
                let idx = if h == 0 && rng.chance(1, 2) { None } else { Some(h) };
                let is_live = handles.get(h).copied().unwrap_or(false);
                match rng.below(20) {
                    0..=5 => {
                        toks.push(Tok::new(guard_tag(rng), idx, Some(gen_input(rng, nasty))));
                        if is_live {
                            guards += 1;
                        }
                    }
                    6..=8 if guards > 0 => toks.push(Tok::new(drop_tag(rng), Some(rng.below(guards as u64 + if nasty { 1 } else { 0 }) as usize), None)),
                    9..=11 => {
                        toks.push(Tok::new('c', idx, None));
                        if is_live {
                            handles.push(true);
                        }
                    }
                    12 => {
                        toks.push(Tok::new('x', Some(h), None));
                        if is_live && h != 0 {
                            handles[h] = false;
                        }
                    }
                    13..=14 => {
                        // close with whatever clones / guards are alive
                        toks.push(Tok::new('C', idx, None));
                        if is_live {
                            handles[h] = false;
                        }
                    }
                    _ => toks.push(Tok::new('m', idx, Some(gen_input(rng, nasty)))),
                }
            }
        }
        "worker" => {
            let mut handles = vec![true];
            let mut guards = 0usize;
            let pick_handle = |rng: &mut Rng, handles: &Vec<bool>, nasty: bool| -> usize {
                let live: Vec<usize> = (0..handles.len()).filter(|h| handles[*h]).collect();
                if live.is_empty() || (nasty && rng.chance(1, 12)) { rng.below(handles.len() as u64 + 1) as usize } else { *rng.pick(&live) }
            };
            for _ in 0..n {
                let h = pick_handle(rng, &handles, nasty);
                let live = handles.get(h).copied().unwrap_or(false);
                match rng.below(20) {
                    0..=7 => toks.push(Tok::new('s', Some(h), Some(gen_input(rng, nasty)))),
                    8..=10 => {
                        toks.push(Tok::new(guard_tag(rng), Some(h), Some(gen_input(rng, nasty))));
                        if live {
                            guards += 1;
                        }
                    }
                    11..=12 if guards > 0 => toks.push(Tok::new(drop_tag(rng), Some(rng.below(guards as u64) as usize), None)),
                    13..=15 => toks.push(Tok::new('F', Some(h), None)),
                    16..=17 => {
                        toks.push(Tok::new('c', Some(h), None));
                        if live {
                            handles.push(true);
                        }
                    }
                    18 => {
                        toks.push(Tok::new('x', Some(h), None));
                        if live {
                            handles[h] = false;
                        }
                    }
                    _ => toks.push(Tok::new('s', Some(h), Some(gen_input(rng, nasty)))),
                }
            }
        }
        "gated" => {
            // flush requests left in flight, mostly while the gate is closed
            let mut handles = vec![true];
            let mut closed = false;
            for _ in 0..n {
                let live: Vec<usize> = (0..handles.len()).filter(|h| handles[*h]).collect();
                let h = if live.is_empty() || (nasty && rng.chance(1, 15)) { rng.below(handles.len() as u64 + 1) as usize } else { *rng.pick(&live) };
                let is_live = handles.get(h).copied().unwrap_or(false);
                match rng.below(40) {
                    0..=13 => toks.push(Tok::new('s', Some(h), Some(gen_input(rng, nasty)))),
                    14..=24 => toks.push(Tok::new('A', Some(h), None)),
                    25..=30 if !closed => {
                        toks.push(Tok::new('G', Some(0), None));
                        closed = true;
                    }
                    25..=27 => {
                        toks.push(Tok::new('G', Some(1), None));
                        closed = false;
                    }
                    28..=30 => toks.push(Tok::new('A', Some(h), None)),
                    31..=32 if closed => toks.push(Tok::new('P', None, None)),
                    33..=35 => {
                        toks.push(Tok::new('c', Some(h), None));
                        if is_live {
                            handles.push(true);
                        }
                    }
                    36 => {
                        toks.push(Tok::new('x', Some(h), None));
                        if is_live {
                            handles[h] = false;
                        }
                    }
                    _ => toks.push(Tok::new('A', Some(h), None)),
                }
            }
            if rng.chance(1, 2) {
                toks.push(Tok::new('G', Some(1), None));
            }
        }
        _ => unreachable!(),
    }
    Case { head: vec![pipeline.to_string()], toks }
}

/// `gated`: the largest number of flush requests in flight at once while the gate is closed
fn max_overlap(c: &Case) -> usize {
    let (mut closed, mut in_flight, mut best) = (false, 0usize, 0usize);
    let mut handles = vec![true];
    for t in &c.toks {
        let live = t.idx.map(|h| handles.get(h).copied().unwrap_or(false)).unwrap_or(false);
        match (t.tag, t.idx) {
            ('G', Some(0)) => {
                closed = true;
                in_flight = 0;
            }
            ('G', Some(1)) => {
                closed = false;
                in_flight = 0;
            }
            ('A', _) if live => {
                in_flight += 1;
                if closed {
                    best = best.max(in_flight);
                }
            }
            ('c', _) if live => handles.push(true),
            ('x', Some(h)) if live => handles[h] = false,
            _ => {}
        }
    }
    best
}

/// `mutex`: for every explicit close, how many other handles + outstanding guards were alive
fn mutex_close_overlap(c: &Case) -> Vec<usize> {
    let mut handles = vec![true];
    let mut guards: Vec<bool> = vec![];
    let mut out = vec![];
    for t in &c.toks {
        let h = t.idx.unwrap_or(0);
        let live = handles.get(h).copied().unwrap_or(false);
        match (t.tag, t.input.is_some()) {
            ('g' | 'h', true) if live => guards.push(true),
            ('d' | 'u' | 'j', false) => {
                if let Some(g) = guards.get_mut(h) {
                    *g = false;
                }
            }
            ('c', false) if live => handles.push(true),
            ('x', false) if live && h != 0 => handles[h] = false,
            ('C', false) if live => {
                handles[h] = false;
                out.push(handles.iter().filter(|x| **x).count() + guards.iter().filter(|x| **x).count());
            }
            _ => {}
        }
    }
    out
}

fn is_nontrivial(c: &Case) -> bool {
    if c.pipeline() == "gated" {
        return max_overlap(c) >= 2;
    }
    // at least two inputs share a key and (for flushable pipelines) the case has a flush or an end-of-life emission
    let ins: Vec<&In> = c.toks.iter().filter_map(|t| t.input.as_ref()).collect();
    let mut keys = BTreeMap::new();
    for i in &ins {
        *keys.entry(key_a(i)).or_insert(0) += 1;
    }
    let shared = keys.values().any(|n| *n >= 2) || (matches!(c.pipeline(), "embedded" | "mutex") && ins.len() >= 2);
    shared
}

// ------------------------------------------------------------------------------------------------
// Oracle-only / trace stages: timed flush, several producer threads

/// totals per key over *all* emitted aggregates (epoch boundaries unknown)
fn totals_over_aggs(aggs: &[Agg]) -> Result<BTreeMap<(String, u64), Totals>, String> {
    let mut m: BTreeMap<(String, u64), Totals> = BTreeMap::new();
    for a in aggs {
        let k = agg_key_a(a).ok_or("aggregate without key fields")?;
        let t = m.entry(k).or_default();
        t.n += 1;
        t.bytes += a.bytes.ok_or("aggregate without bytes")?;
        t.opt += a.opt.ok_or("aggregate without opt")?;
        t.inner += a.inner.ok_or("aggregate without inner_count")?;
        t.last = a.last;
        let mut seen = BTreeMap::new();
        for (v, c) in a.dist.as_ref().ok_or("non-integer observation")? {
            if seen.insert(*v, ()).is_some() {
                return Err(format!("distribution lists value {v} twice"));
            }
            *t.dist.entry(*v).or_insert(0) += c;
        }
    }
    Ok(m)
}

fn totals_over_inputs(ins: &[In]) -> BTreeMap<(String, u64), Totals> {
    let mut m: BTreeMap<(String, u64), Totals> = BTreeMap::new();
    for i in ins {
        m.entry(key_a(i)).or_default().add(i);
    }
    m
}

/// conservation of totals; `last_candidates`: per key the admissible keep-last values of the final aggregate
fn check_totals(ins: &[In], aggs: &[Agg], last_candidates: &BTreeMap<(String, u64), Vec<u64>>) -> Option<String> {
    let got = match totals_over_aggs(aggs) {
        Ok(g) => g,
        Err(e) => return Some(e),
    };
    let want = totals_over_inputs(ins);
    for (k, w) in &want {
        let Some(g) = got.get(k) else { return Some(format!("no aggregate at all for key {k:?}: {} inputs lost", w.n)) };
        if g.bytes != w.bytes || g.opt != w.opt || g.inner != w.inner {
            return Some(format!(
                "key {k:?}: sums over all emitted aggregates (bytes {}, opt {}, inner {}) differ from the inputs' (bytes {}, opt {}, inner {})",
                g.bytes, g.opt, g.inner, w.bytes, w.opt, w.inner
            ));
        }
        if g.dist != w.dist {
            return Some(format!("key {k:?}: observations over all emitted aggregates {:?} differ from the inputs' {:?}", g.dist, w.dist));
        }
        if g.n > w.n {
            return Some(format!("key {k:?}: {} aggregates for {} inputs (an aggregate without inputs)", g.n, w.n));
        }
        let cands = &last_candidates[k];
        if !g.last.map(|l| cands.contains(&l)).unwrap_or(false) {
            return Some(format!("key {k:?}: keep-last of the final aggregate {:?} is not the last input of any producer {:?}", g.last, cands));
        }
    }
    for k in got.keys() {
        if !want.contains_key(k) {
            return Some(format!("aggregate for key {k:?} which no input has"));
        }
    }
    None
}

/// interval of a `timed` case: `<n>` ms, `ns<n>`, `s<n>`, `max` (= `Duration::MAX`)
fn parse_interval(s: &str) -> Option<Duration> {
    if s == "max" {
        Some(Duration::MAX)
    } else if let Some(n) = s.strip_prefix("ns") {
        Some(Duration::from_nanos(n.parse().ok()?))
    } else if let Some(n) = s.strip_prefix('s') {
        Some(Duration::from_secs(n.parse().ok()?))
    } else {
        Some(Duration::from_millis(s.parse().ok()?))
    }
}

/// the boundary values of `WorkerSink::new`'s `flush_interval`: zero, the smallest, ordinary ones, and
/// the ones an `Instant` cannot be advanced by ("never flush on a timer")
const INTERVALS: &[&str] = &["ns0", "ns1", "1", "s3600", "s3155760000", "s9223372036854775807", "s18446744073709551615", "max"];

struct TimedRun {
    ins: Vec<In>,
    aggs: Vec<Agg>,
    /// at the completion of every explicit flush: (inputs sent so far, aggregates emitted so far)
    barriers: Vec<(usize, usize)>,
    trouble: Option<String>,
}

/// `timed <interval> toks`: one producer, a real flush interval
fn run_timed(c: &Case) -> TimedRun {
    let Some(interval) = parse_interval(&c.head[1]) else {
        return TimedRun { ins: vec![], aggs: vec![], barriers: vec![], trouble: Some("harness: bad interval".into()) };
    };
    let ts = test_entry_sink();
    let (dtx, drx) = mpsc::channel();
    let rt = rt();
    let agg = KeyedAggregator::<Call, BoxEntrySink>::new(ts.sink.clone());
    let w: WorkerSink<CallEntry, Probe<KeyedAggregator<Call, BoxEntrySink>>> =
        WorkerSink::new(Probe { inner: agg, dropped: dtx }, interval);
    let mut ins = vec![];
    let mut barriers = vec![];
    let mut trouble = None;
    for t in &c.toks {
        match (t.tag, t.idx, &t.input) {
            ('s', _, Some(i)) => {
                w.send(i.call().close());
                ins.push(i.clone());
            }
            ('p', Some(ms), None) => std::thread::sleep(Duration::from_millis(ms as u64)),
            ('F', _, None) => {
                let r = catch(|| rt.block_on(async { tokio::time::timeout(exit_wait(), w.flush()).await }));
                match r {
                    Ok(Ok(())) => barriers.push((ins.len(), ts.inspector.entries().len())),
                    Ok(Err(_)) => {
                        trouble = Some("a flush request did not complete within 20 s".to_string());
                        break;
                    }
                    Err(p) => {
                        trouble = Some(format!("a flush request panicked ({p}): the worker thread is gone"));
                        break;
                    }
                }
            }
            _ => {}
        }
    }
    drop(w);
    if drx.recv_timeout(exit_wait()).is_err() {
        trouble = Some("worker thread did not terminate".into());
    }
    let aggs = ts.inspector.entries().iter().map(agg_of).collect();
    TimedRun { ins, aggs, barriers, trouble }
}

fn last_cands(ins: &[In]) -> BTreeMap<(String, u64), Vec<u64>> {
    let mut cands = BTreeMap::new();
    for i in ins {
        cands.insert(key_a(i), vec![i.last]);
    }
    cands
}

/// conservation over the whole run, consecutive chunks per key, and at every completed flush exactly
/// the inputs sent before it have been emitted (timer flushes may have split them anywhere)
fn oracle_timed(r: &TimedRun) -> Option<String> {
    if let Some(t) = &r.trouble {
        return Some(t.clone());
    }
    for (k, (n_in, n_agg)) in r.barriers.iter().enumerate() {
        let (ins, aggs) = (&r.ins[..*n_in], &r.aggs[..(*n_agg).min(r.aggs.len())]);
        if let Some(w) = check_totals(ins, aggs, &last_cands(ins)) {
            return Some(format!("when flush #{k} completed ({n_in} inputs sent before it): {w}"));
        }
    }
    check_totals(&r.ins, &r.aggs, &last_cands(&r.ins)).or_else(|| check_chunks(&r.ins, &r.aggs))
}

/// with one producer the aggregates of a key, in emission order, must be consecutive chunks of its inputs
fn check_chunks(ins: &[In], aggs: &[Agg]) -> Option<String> {
    let mut per_key_in: BTreeMap<(String, u64), Vec<&In>> = BTreeMap::new();
    for i in ins {
        per_key_in.entry(key_a(i)).or_default().push(i);
    }
    let mut per_key_agg: BTreeMap<(String, u64), Vec<&Agg>> = BTreeMap::new();
    for a in aggs {
        per_key_agg.entry(agg_key_a(a)?).or_default().push(a);
    }
    for (k, aggs) in &per_key_agg {
        let inputs = per_key_in.get(k).cloned().unwrap_or_default();
        // dynamic programming over (aggregate index, input position): can aggs[j..] be consecutive non-empty chunks of inputs[p..]?
        let (na, ni) = (aggs.len(), inputs.len());
        let mut ok = vec![vec![false; ni + 1]; na + 1];
        ok[na][ni] = true;
        for j in (0..na).rev() {
            for p in (0..ni).rev() {
                let mut t = Totals::default();
                for q in p..ni {
                    t.add(inputs[q]);
                    if ok[j + 1][q + 1] && check_agg(aggs[j], &t).is_none() {
                        ok[j][p] = true;
                        break;
                    }
                }
            }
        }
        if !ok[0][0] {
            return Some(format!("key {k:?}: its {na} aggregates are not consecutive non-empty chunks of its {ni} inputs (an input is counted in no or in two aggregates)"));
        }
    }
    None
}

/// `mt <w|m> <producers> <flushes> toks`
fn run_mt(c: &Case) -> (Vec<Vec<In>>, Vec<Agg>, Option<String>) {
    let kind = c.head[1].as_str();
    let producers: usize = c.head[2].parse().unwrap_or(2);
    let flushes: usize = c.head[3].parse().unwrap_or(0);
    let mut per: Vec<Vec<In>> = vec![vec![]; producers];
    for t in &c.toks {
        if let (Some(p), Some(i)) = (t.idx, &t.input) {
            per[p % producers].push(i.clone());
        }
    }
    let mut trouble = None;
    if kind == "w" {
        let ts = test_entry_sink();
        let (dtx, drx) = mpsc::channel();
        let agg = KeyedAggregator::<Call, BoxEntrySink>::new(ts.sink.clone());
        let w: WorkerSink<CallEntry, Probe<KeyedAggregator<Call, BoxEntrySink>>> =
            WorkerSink::new(Probe { inner: agg, dropped: dtx }, Duration::from_secs(3600));
        let mut threads = vec![];
        for seq in per.clone() {
            let h = w.clone();
            threads.push(std::thread::spawn(move || {
                for (n, i) in seq.iter().enumerate() {
                    if n % 2 == 0 {
                        h.send(i.call().close());
                    } else {
                        drop(i.call().close_and_merge(h.clone()));
                    }
                    if n % 3 == 0 {
                        std::thread::yield_now();
                    }
                }
            }));
        }
        let h = w.clone();
        let flusher = std::thread::spawn(move || {
            let rt = rt();
            let mut bad = false;
            for _ in 0..flushes {
                std::thread::yield_now();
                let r = catch(|| rt.block_on(async { tokio::time::timeout(exit_wait(), h.flush()).await }));
                bad |= !matches!(r, Ok(Ok(())));
            }
            bad
        });
        for t in threads {
            let _ = t.join();
        }
        if flusher.join().unwrap_or(true) {
            trouble = Some("a flush did not complete".to_string());
        }
        drop(w);
        if drx.recv_timeout(exit_wait()).is_err() {
            trouble = Some("worker thread did not terminate".into());
        }
        let aggs = ts.inspector.entries().iter().map(agg_of).collect();
        (per, aggs, trouble)
    } else {
        // MutexSink over a keyed aggregator is not flushable from outside; the shared sink is the
        // embedded aggregate: keys are ignored, everything lands in one aggregate
        let parent = ParentM { calls: MutexSink::new(Aggregate::default()) };
        let mut threads = vec![];
        for seq in per.clone() {
            let h = parent.calls.clone();
            threads.push(std::thread::spawn(move || {
                for (n, i) in seq.iter().enumerate() {
                    if n % 2 == 0 {
                        RootSink::merge(&h, i.plain().close());
                    } else {
                        drop(i.plain().close_and_merge(h.clone()));
                    }
                    if n % 3 == 0 {
                        std::thread::yield_now();
                    }
                }
            }));
        }
        for t in threads {
            let _ = t.join();
        }
        let a = match catch(|| agg_of(&test_metric(parent))) {
            Ok(a) => vec![a],
            Err(p) => {
                trouble = Some(format!("panic:{p}"));
                vec![]
            }
        };
        (per, a, trouble)
    }
}

fn oracle_mt(c: &Case, per: &[Vec<In>], aggs: &[Agg]) -> Option<String> {
    let all: Vec<In> = per.iter().flatten().cloned().collect();
    if c.head[1] == "w" {
        let mut cands: BTreeMap<(String, u64), Vec<u64>> = BTreeMap::new();
        for seq in per {
            let mut last: BTreeMap<(String, u64), u64> = BTreeMap::new();
            for i in seq {
                last.insert(key_a(i), i.last);
            }
            for (k, v) in last {
                cands.entry(k).or_default().push(v);
            }
        }
        check_totals(&all, aggs, &cands)
    } else {
        if aggs.len() != 1 {
            return Some(format!("{} aggregates from a MutexSink<Aggregate>", aggs.len()));
        }
        let mut t = Totals::default();
        all.iter().for_each(|i| t.add(i));
        let lasts: Vec<Option<u64>> = if all.is_empty() { vec![None] } else { per.iter().filter_map(|s| s.last().map(|i| Some(i.last))).collect() };
        let mut a = aggs[0].clone();
        if !lasts.contains(&a.last) {
            return Some(format!("keep-last {:?} is not the last input of any producer", a.last));
        }
        a.last = t.last;
        check_agg(&a, &t).map(|w| format!("mutex-shared aggregate: {w}"))
    }
}

/// the `trace` request for the Lean driver: inputs and all emitted aggregates
fn trace_request(keyless: bool, ins: &[In], aggs: &[Agg]) -> String {
    let mut v = vec!["trace".to_string(), if keyless { "keyless".into() } else { "keyed".into() }];
    v.extend(ins.iter().map(|i| format!("in={}", i.encode())));
    v.extend(aggs.iter().map(|a| format!("out={}", show_agg(a))));
    v.join(" ")
}

// ------------------------------------------------------------------------------------------------

/// Fault probe (recorded in the report's notes, never an oracle failure): what happens to the inputs of
/// OTHER callers when one `Merge::merge` panics (here: `Sum<u64>` overflowing in a build with overflow
/// checks). The property quantifies over input sequences, not over panics inside a merge, so this is
/// reported, not judged; see notes/C10.md "DEFECT candidate".
fn probe_panicking_merge() -> Vec<String> {
    let mut out = vec![];
    let plain = |bytes: u64| In { endpoint: String::new(), shard: 0, bytes, last: 0, obs: vec![], opt: None, inner: 0 };
    // MutexSink: A merges 5; B's merge panics inside the lock on another thread (contained by join); C merges 7; close
    let parent = ParentM { calls: MutexSink::new(Aggregate::default()) };
    RootSink::merge(&parent.calls, plain(5).plain().close());
    let h = parent.calls.clone();
    let big = plain(u64::MAX);
    let b = std::thread::spawn(move || RootSink::merge(&h, big.plain().close())).join().is_err();
    if !b {
        out.push("fault probe: an overflowing Sum<u64> merge did not panic in this build (wrapping arithmetic): probe skipped".into());
        return out;
    }
    let h = parent.calls.clone();
    let c = catch(|| RootSink::merge(&h, plain(7).plain().close())).is_err();
    let closed = catch(|| agg_of(&test_metric(parent)));
    out.push(format!(
        "fault probe MutexSink: after one caller's merge panicked inside the lock (poisoned mutex), another caller's later merge panics: {c}; closing the sink: {}",
        match closed {
            Ok(a) => format!("emits bytes={:?}", a.bytes),
            Err(p) => format!("panics ({p}): the aggregate holding the earlier callers' inputs is never emitted"),
        }
    ));
    // WorkerSink: entry a:5, then an entry whose merge panics in the worker thread, then b:7, flush, drop
    let ts = test_entry_sink();
    let (dtx, drx) = mpsc::channel();
    let agg = KeyedAggregator::<Call, BoxEntrySink>::new(ts.sink.clone());
    let w: WorkerSink<CallEntry, Probe<KeyedAggregator<Call, BoxEntrySink>>> =
        WorkerSink::new(Probe { inner: agg, dropped: dtx }, Duration::from_secs(3600));
    let key = |e: &str, bytes: u64| In { endpoint: e.into(), shard: 0, bytes, last: 0, obs: vec![], opt: None, inner: 0 };
    w.send(key("a", 5).call().close());
    w.send(key("a", u64::MAX).call().close());
    let died = drx.recv_timeout(Duration::from_secs(5)).is_ok();
    let sent = catch(|| w.send(key("b", 7).call().close())).is_ok();
    let rt = rt();
    let flushed = match catch(|| rt.block_on(async { tokio::time::timeout(Duration::from_secs(5), w.flush()).await })) {
        Ok(Ok(())) => "completes",
        Ok(Err(_)) => "times out",
        Err(_) => "panics",
    };
    drop(w);
    out.push(format!(
        "fault probe WorkerSink: a merge that panics in the worker thread ends the thread (inner sink dropped unflushed: {died}); a later send by another caller returns normally: {sent} (the entry is silently discarded); flush then {flushed}; aggregates emitted in total: {} (the entry a:5 merged before the panic is lost too)",
        ts.inspector.entries().len()
    ));
    out
}

fn shrink_case(c: &Case, fails: impl Fn(&Case) -> bool) -> Case {
    let toks = shrink_list(&c.toks, |t| fails(&c.with(t)));
    c.with(&toks)
}

fn main() {
    quiet_panics();
    let args = Args::parse();
    let mut rep = Report::new(
        &args,
        "aggregation",
        "case = (pipeline, operation sequence over a real #[aggregate] struct); non-trivial = at least two inputs \
         are merged into the same aggregate (same key, or any two inputs for the key-less pipelines); for the gated \
         worker: at least two flush requests are in flight at once while the gate is closed; distinct by case text",
    );
    let mut rng = Rng::new(args.seed);
    let thorough = args.thorough();
    let mut cases: Vec<Case> = vec![];
    if let Some(line) = args.replay_case() {
        cases.extend(Case::decode(&line));
    } else {
        rep.notes.extend(probe_panicking_merge());
        for l in args.corpus_cases() {
            match Case::decode(&l) {
                Some(c) => cases.push(c),
                None => rep.notes.push(format!("corpus line not decodable: {l}")),
            }
        }
        let plan: &[(&str, u64, u64)] = if thorough {
            &[("keyed", 40_000, 60), ("tee", 20_000, 50), ("embedded", 10_000, 40), ("mutex", 10_000, 40), ("worker", 20_000, 50)]
        } else {
            &[("keyed", 1500, 40), ("tee", 800, 30), ("embedded", 400, 25), ("mutex", 400, 25), ("worker", 800, 30)]
        };
        for (p, n, max_len) in plan {
            for k in 0..*n {
                cases.push(gen_case(&mut rng, p, k % 3 == 2, *max_len));
            }
        }
        // timed flush and multi-producer stages
        let (n_timed, n_mt) = if thorough { (150, 3000) } else { (12, 150) };
        for _ in 0..n_timed {
            let ms = rng.range(1, 4);
            let n = rng.range(5, 40);
            let mut toks = vec![];
            for _ in 0..n {
                match rng.below(10) {
                    0 | 1 => toks.push(Tok::new('p', Some(rng.range(0, 2 * ms) as usize), None)),
                    2 => toks.push(Tok::new('F', Some(0), None)),
                    _ => toks.push(Tok::new('s', Some(0), Some(gen_input(&mut rng, false)))),
                }
            }
            cases.push(Case { head: vec!["timed".into(), ms.to_string()], toks });
        }
        // boundary stream of the flush interval: every value, with and without explicit flushes
        let per_interval = if thorough { 60 } else { 6 };
        for iv in INTERVALS {
            for k in 0..per_interval {
                let n = rng.range(1, if thorough { 40 } else { 20 });
                let mut toks = vec![];
                for _ in 0..n {
                    match rng.below(10) {
                        0 => toks.push(Tok::new('p', Some(rng.range(0, 2) as usize), None)),
                        1 | 2 if k % 2 == 0 => toks.push(Tok::new('F', Some(0), None)),
                        _ => toks.push(Tok::new('s', Some(0), Some(gen_input(&mut rng, false)))),
                    }
                }
                cases.push(Case { head: vec!["timed".into(), iv.to_string()], toks });
            }
        }
        for k in 0..n_mt {
            let producers = rng.range(2, 4);
            let flushes = rng.range(0, 4);
            let n = rng.range(4, 60);
            let toks = (0..n).map(|_| Tok::new('s', Some(rng.below(producers) as usize), Some(gen_input(&mut rng, false)))).collect();
            let kind = if k % 3 == 0 { "m" } else { "w" };
            cases.push(Case { head: vec!["mt".into(), kind.into(), producers.to_string(), flushes.to_string()], toks });
        }
        // degenerate shapes: inline capacity 0/1/2, an aggregate with no aggregated field
        let n_deg = if thorough { 3000 } else { 150 };
        for k in 0..n_deg {
            cases.push(gen_case(&mut rng, "cap", k % 3 == 2, 12));
            cases.push(gen_case(&mut rng, "keyonly", k % 3 == 2, 25));
        }
        // bursts: more entries queued behind a held worker than any bounded queue would take
        let burst = In { endpoint: "a".into(), shard: 1, bytes: 1, last: 4, obs: vec![(5, 1)], opt: Some(2), inner: 1 };
        for n in if thorough { vec![4097usize, 5000, 20000] } else { vec![4097, 5000] } {
            let toks = vec![
                Tok::new('s', Some(0), Some(gen_input(&mut rng, false))),
                Tok::new('G', Some(0), None),
                Tok::new('A', Some(0), None),
                Tok::new('b', Some(n), Some(burst.clone())),
                Tok::new('G', Some(1), None),
            ];
            cases.push(Case { head: vec!["gated".into()], toks });
        }
        // overlapping flush requests behind a gate
        let n_gated = if thorough { 8000 } else { 400 };
        for k in 0..n_gated {
            cases.push(gen_case(&mut rng, "gated", k % 3 == 2, if thorough { 40 } else { 25 }));
        }
    }

    let mut requests: Vec<String> = vec![];
    let mut answers: Vec<(usize, String, String)> = vec![]; // (case index, component, expected reply)
    let mut encoded: Vec<String> = vec![];
    let mut clean_disagree_candidates: Vec<usize> = vec![];
    let mut liveness_failures = 0u32;
    for (ci, c) in cases.iter().enumerate() {
        let enc = c.encode();
        encoded.push(enc.clone());
        if liveness_failures > 0 && matches!(c.pipeline(), "worker" | "timed" | "mt" | "gated") {
            // do not pile up stuck threads: one witness is enough
            rep.bump("skipped:worker case after a liveness failure");
            continue;
        }
        rep.bump(&format!("pipeline:{}", c.pipeline()));
        let ninputs = c.toks.iter().filter(|t| t.input.is_some()).count();
        rep.bump(&format!("inputs:{}", match ninputs { 0 => "0", 1..=3 => "1-3", 4..=10 => "4-10", 11..=25 => "11-25", _ => "26+" }));
        for t in &c.toks {
            rep.bump(&format!("op:{}:{}", c.pipeline(), t.tag));
        }
        match c.pipeline() {
            "timed" => {
                let r = run_timed(c);
                rep.case(&enc, r.ins.len() >= 2);
                rep.traces_validated += 1;
                rep.bump(&format!("timed:interval:{}", c.head[1]));
                rep.bump_by("timed:aggregates emitted", r.aggs.len() as u64);
                rep.bump_by("timed:flush barriers checked", r.barriers.len() as u64);
                if let Some(w) = oracle_timed(&r) {
                    if w.contains("did not") {
                        // a stuck thread: every re-run costs the full wait
                        liveness_failures += 1;
                        rep.oracle_failure("aggregation:worker-timed-flush", &enc, &show_list(&r.aggs), &w);
                    } else {
                        let small = shrink_case(c, |cc| oracle_timed(&run_timed(cc)).is_some());
                        let r2 = run_timed(&small);
                        match oracle_timed(&r2) {
                            Some(w2) => rep.oracle_failure("aggregation:worker-timed-flush", &small.encode(), &show_list(&r2.aggs), &w2),
                            None => rep.oracle_failure("aggregation:worker-timed-flush", &enc, &show_list(&r.aggs), &w),
                        }
                    }
                }
                requests.push(trace_request(false, &r.ins, &r.aggs));
                answers.push((ci, "aggregation/trace-timed".into(), "ok".into()));
            }
            "mt" => {
                let (per, aggs, trouble) = run_mt(c);
                rep.case(&enc, per.iter().filter(|s| !s.is_empty()).count() >= 2);
                rep.traces_validated += 1;
                let what = trouble.or_else(|| oracle_mt(c, &per, &aggs));
                if let Some(w) = what {
                    let key = if c.head[1] == "w" { "aggregation:worker-multi-producer" } else { "aggregation:mutex-multi-producer" };
                    rep.oracle_failure(key, &enc, &show_list(&aggs), &w);
                }
                let all: Vec<In> = per.iter().flatten().cloned().collect();
                requests.push(trace_request(c.head[1] == "m", &all, &aggs));
                answers.push((ci, "aggregation/trace-mt".into(), "ok".into()));
            }
            _ => {
                if std::env::var("C10_TRACE").is_ok() {
                    eprintln!("{enc}");
                }
                let run = run_impl(c);
                rep.case(&enc, is_nontrivial(c));
                rep.bump_by("flush observations", run.epochs.len() as u64);
                if c.pipeline() == "mutex" {
                    for k in mutex_close_overlap(c) {
                        rep.bump(&format!("mutex:close with {} other handle(s)/guard(s) alive", k.min(3)));
                    }
                }
                if c.pipeline() == "gated" {
                    rep.bump(&format!("gated:max flush requests in flight behind the closed gate:{}", max_overlap(c).min(4)));
                }
                rep.bump_by("aggregates emitted", run.epochs.iter().map(|(a, b)| (a.len() + b.len()) as u64).sum());
                if ci % 499 == 0 {
                    rep.sample(json!({"case": enc, "impl": run.canonical(c.pipeline())}));
                }
                if let Some(_what) = oracle(c, &run) {
                    let liveness = run.exited == Some(false) || run.trouble.iter().any(|t| t == "flush-timeout");
                    let small = if liveness {
                        // a thread that never answers / never exits: every re-run costs the full wait and may
                        // leave a spinning thread behind, so only a few fixed reductions are tried, with a
                        // short wait; the chosen case is confirmed below with the full wait
                        liveness_failures += 1;
                        WAIT_MS.store(1_500, Ordering::Relaxed);
                        let sends: Vec<Tok> = c.toks.iter().filter(|t| t.tag == 's' && t.idx == Some(0)).take(1).cloned().collect();
                        let cands = [c.with(&[]), c.with(&sends), c.clone()];
                        let pick = cands.iter().find(|cc| oracle(cc, &run_impl(cc)).is_some()).cloned().unwrap_or_else(|| c.clone());
                        WAIT_MS.store(20_000, Ordering::Relaxed);
                        pick
                    } else {
                        // thread timing can matter when the gate is open: a reduction must fail three times in a row
                        if c.pipeline() == "gated" {
                            // the gate makes the interleaving deterministic: first shrink with the gate
                            // operations pinned, then drop gate operations only if the requests still
                            // overlap behind the closed gate and the failure stays (ten runs in a row)
                            let gates = |x: &Case| x.toks.iter().filter(|t| t.tag == 'G').count();
                            let g0 = gates(c);
                            let s1 = shrink_case(c, |cc| gates(cc) == g0 && (0..2).all(|_| oracle(cc, &run_impl(cc)).is_some()));
                            let need = max_overlap(&s1).min(2);
                            shrink_case(&s1, |cc| max_overlap(cc) >= need && (0..10).all(|_| oracle(cc, &run_impl(cc)).is_some()))
                        } else {
                            shrink_case(c, |cc| oracle(cc, &run_impl(cc)).is_some())
                        }
                    };
                    let mut small = small;
                    let mut r2 = run_impl(&small);
                    if oracle(&small, &r2).is_none() {
                        // not deterministic (hash seeds, thread timing): keep the case as it failed
                        small = c.clone();
                        r2 = run.clone();
                    }
                    let what = oracle(&small, &r2).unwrap_or_else(|| "oracle failure not reproducible".into());
                    let site = match c.pipeline() {
                        "worker" if r2.exited == Some(false) => "aggregation:worker-termination".to_string(),
                        p => format!("aggregation:{p}"),
                    };
                    rep.oracle_failure(&site, &small.encode(), &r2.canonical(small.pipeline()), &what);
                } else {
                    clean_disagree_candidates.push(ci);
                }
                requests.push(enc.clone());
                answers.push((ci, format!("aggregation/{}", c.pipeline()), run.canonical(c.pipeline())));
            }
        }
    }

    match run_driver(&args.driver, "aggregation", &requests) {
        Some(replies) => {
            let mut first_clean_disagreement: Option<usize> = None;
            for ((ci, comp, ans), reply) in answers.iter().zip(replies.iter()) {
                if ans != reply {
                    // shrink deterministic cases against the driver? (kept simple: report the case as is)
                    rep.disagreement(comp, &encoded[*ci], ans, reply);
                    if clean_disagree_candidates.binary_search(ci).is_ok() && first_clean_disagreement.is_none() {
                        first_clean_disagreement = Some(*ci);
                    }
                }
            }
            rep.bump_by("model requests", requests.len() as u64);
            // a disagreement without an oracle failure: targeted oracle-only search around the case
            if rep.oracle_failures.is_empty() {
                if let Some(ci) = first_clean_disagreement {
                    let base = &cases[ci];
                    let mut srng = rng.fork(ci as u64);
                    let budget = if thorough { 40_000 } else { 8_000 };
                    for _ in 0..budget {
                        let mut toks = base.toks.clone();
                        // neighbours: duplicate / drop / replace an op, insert a flush
                        match srng.below(4) {
                            0 if !toks.is_empty() => {
                                let i = srng.below(toks.len() as u64) as usize;
                                let t = toks[i].clone();
                                toks.insert(i, t);
                            }
                            1 if !toks.is_empty() => {
                                let i = srng.below(toks.len() as u64) as usize;
                                toks.remove(i);
                            }
                            2 if !toks.is_empty() => {
                                let i = srng.below(toks.len() as u64) as usize;
                                if toks[i].input.is_some() {
                                    toks[i].input = Some(gen_input(&mut srng, true));
                                }
                            }
                            _ => {
                                let extra = gen_case(&mut srng, base.pipeline(), true, 12);
                                toks.extend(extra.toks);
                            }
                        }
                        let cc = base.with(&toks);
                        rep.search_cases += 1;
                        let run = run_impl(&cc);
                        if oracle(&cc, &run).is_some() {
                            let small = shrink_case(&cc, |x| oracle(x, &run_impl(x)).is_some());
                            let r2 = run_impl(&small);
                            let what = oracle(&small, &r2).unwrap_or_default();
                            rep.oracle_failure(&format!("aggregation:{}", small.pipeline()), &small.encode(), &r2.canonical(small.pipeline()), &what);
                            rep.search_found = true;
                            break;
                        }
                    }
                }
            }
        }
        None => rep.driver_available = false,
    }
    rep.write(&args);
}
