//! Engine `emfspec` (C03 content fidelity, C08 validation) — the declarative side of the EMF formatter.
//!
//! Case line: `<EmfCfg encoding> | <GenEntry encoding>` (both from `verif_harness::gen_entry`).
//!
//! Per case the engine
//!  (i)   formats the entry with the real `Emf` / `SampledEmf` built from the configuration,
//!  (ii)  runs property oracles that are independent of the Lean model:
//!        C03: the output is parsed (own duplicate-preserving parser + serde_json for tokens) and compared
//!             with the repo's own recording writer `metrique_writer::test_util::to_test_entry` replaying
//!             the same entry: strings once per record with exact text, usable metrics once overall with
//!             the right numbers / Values / Counts, declarations per namespace, timestamp, dimension sets;
//!        C08: a Rust reading of the property's defect list decides `defective(cfg, entry)`; a validating
//!             formatter must reject (validation error, zero bytes) exactly the defective entries (and
//!             those with a value error), accepted output must have no duplicate member (strict parse)
//!             and be the same lines a non-validating formatter writes;
//!  (iii) sends `<validates 0|1> <case>` to the Lean driver (`records` of `Model/EmfSpec.lean`) and
//!        compares: result class, validation error kinds with field names (sorted multiset), records as
//!        a multiset with members / declarations sorted by name, every number by exact value
//!        (`u64`: same decimal text; `f64`: the text parses to the same bit pattern).
//!
//! Every case is formatted twice: by a fresh formatter and by a long-lived formatter instance of the same
//! configuration (cases come in runs of one configuration); both outputs face the same oracles and the same model
//! prediction; a failure that needs earlier entries is reported as `<key>:after-history` with the case text
//! `<earlier case> ;; <case>`. Boundary streams add large entries (many dimension sets / items / dimensions / bytes).
//!
//! Whether a formatter validates depends on how it was built and on the build profile
//! (`EmfCfg::validates()`); the check runs this binary in the dev and in the release profile.

use metrique_writer::test_util::{TestEntry, to_test_entry};
use metrique_writer_core::{IoStreamError, Observation, Unit};
use std::collections::{BTreeMap, BTreeSet};
use std::time::SystemTime;
use verif_harness::gen_entry::*;
use verif_harness::*;

// ------------------------------------------------------------------------------------------------
// case

#[derive(Clone, Debug)]
struct Case {
    cfg: EmfCfg,
    entry: GenEntry,
    /// entries the SAME formatter instance formatted before this one (oldest first); empty = fresh formatter
    history: Vec<GenEntry>,
}

impl Case {
    fn new(cfg: EmfCfg, entry: GenEntry) -> Case {
        Case { cfg, entry, history: vec![] }
    }
    /// `<cfg> | <entry>`; with a history `<cfg> | <earlier entry> ;; … ;; <cfg> | <entry>`
    fn encode(&self) -> String {
        let c = self.cfg.encode();
        let mut parts: Vec<String> = self.history.iter().map(|h| format!("{c} | {}", h.encode())).collect();
        parts.push(format!("{c} | {}", self.entry.encode()));
        parts.join(" ;; ")
    }
    fn decode(s: &str) -> Option<Case> {
        let mut cfg = None;
        let mut entries = vec![];
        for part in s.split(" ;; ") {
            let (c, e) = part.split_once(" | ")?;
            let c = EmfCfg::decode(c.trim())?;
            if c.namespaces.is_empty() || c.default_dims.is_empty() {
                return None;
            }
            c.build_fmt()?;
            // one formatter instance: the configuration of the last part counts
            cfg = Some(c);
            entries.push(GenEntry::decode(e)?);
        }
        let entry = entries.pop()?;
        Some(Case { cfg: cfg?, entry, history: entries })
    }
    /// the model is a function of the configuration and the entry alone
    fn request(&self) -> String {
        format!("{} {} | {}", self.cfg.validates() as u8, self.cfg.encode(), self.entry.encode())
    }
}

// ------------------------------------------------------------------------------------------------
// a small JSON parser that keeps member order, duplicate members and the raw text of numbers

#[derive(Clone, Debug, PartialEq)]
enum J {
    Obj(Vec<(String, J)>),
    Arr(Vec<J>),
    Str(String),
    Num(String),
    Lit(&'static str),
}

struct Parser<'a> {
    s: &'a [u8],
    i: usize,
}

impl<'a> Parser<'a> {
    fn peek(&self) -> Option<u8> {
        self.s.get(self.i).copied()
    }
    fn expect(&mut self, c: u8) -> Result<(), String> {
        if self.peek() == Some(c) {
            self.i += 1;
            Ok(())
        } else {
            Err(format!("expected {:?} at byte {}", c as char, self.i))
        }
    }
    fn string(&mut self) -> Result<String, String> {
        let start = self.i;
        self.expect(b'"')?;
        loop {
            match self.peek() {
                None => return Err("unterminated string".into()),
                Some(b'\\') => self.i += 2,
                Some(b'"') => {
                    self.i += 1;
                    break;
                }
                Some(c) if c < 0x20 => return Err(format!("raw control character in string at byte {}", self.i)),
                Some(_) => self.i += 1,
            }
        }
        let tok = std::str::from_utf8(&self.s[start..self.i.min(self.s.len())]).map_err(|e| e.to_string())?;
        serde_json::from_str::<String>(tok).map_err(|e| format!("bad string token {tok:?}: {e}"))
    }
    fn value(&mut self) -> Result<J, String> {
        match self.peek() {
            Some(b'{') => {
                self.i += 1;
                let mut ms = vec![];
                if self.peek() == Some(b'}') {
                    self.i += 1;
                    return Ok(J::Obj(ms));
                }
                loop {
                    let k = self.string()?;
                    self.expect(b':')?;
                    let v = self.value()?;
                    ms.push((k, v));
                    match self.peek() {
                        Some(b',') => self.i += 1,
                        Some(b'}') => {
                            self.i += 1;
                            return Ok(J::Obj(ms));
                        }
                        _ => return Err(format!("expected , or }} at byte {}", self.i)),
                    }
                }
            }
            Some(b'[') => {
                self.i += 1;
                let mut xs = vec![];
                if self.peek() == Some(b']') {
                    self.i += 1;
                    return Ok(J::Arr(xs));
                }
                loop {
                    xs.push(self.value()?);
                    match self.peek() {
                        Some(b',') => self.i += 1,
                        Some(b']') => {
                            self.i += 1;
                            return Ok(J::Arr(xs));
                        }
                        _ => return Err(format!("expected , or ] at byte {}", self.i)),
                    }
                }
            }
            Some(b'"') => Ok(J::Str(self.string()?)),
            Some(c) if c == b'-' || c.is_ascii_digit() => {
                let start = self.i;
                while let Some(c) = self.peek() {
                    if c.is_ascii_digit() || matches!(c, b'-' | b'+' | b'.' | b'e' | b'E') {
                        self.i += 1;
                    } else {
                        break;
                    }
                }
                let tok = std::str::from_utf8(&self.s[start..self.i]).unwrap().to_string();
                match serde_json::from_str::<serde_json::Value>(&tok) {
                    Ok(serde_json::Value::Number(_)) => Ok(J::Num(tok)),
                    _ => Err(format!("bad number token {tok:?}")),
                }
            }
            _ => {
                for lit in ["true", "false", "null"] {
                    if self.s[self.i..].starts_with(lit.as_bytes()) {
                        self.i += lit.len();
                        return Ok(J::Lit(lit));
                    }
                }
                Err(format!("unexpected byte at {}", self.i))
            }
        }
    }
}

fn parse_json(line: &str) -> Result<J, String> {
    let mut p = Parser { s: line.as_bytes(), i: 0 };
    let v = p.value()?;
    if p.i != line.len() {
        return Err(format!("trailing bytes after value at {}", p.i));
    }
    Ok(v)
}

/// names that occur twice among the members of one object (anywhere in the tree)
fn duplicate_members(j: &J, out: &mut Vec<String>) {
    match j {
        J::Obj(ms) => {
            let mut seen = BTreeSet::new();
            for (k, v) in ms {
                if !seen.insert(k.clone()) {
                    out.push(k.clone());
                }
                duplicate_members(v, out);
            }
        }
        J::Arr(xs) => xs.iter().for_each(|x| duplicate_members(x, out)),
        _ => {}
    }
}

// ------------------------------------------------------------------------------------------------
// the shape of an EMF record as found in the real output

#[derive(Clone, Debug, PartialEq)]
struct IDecl {
    name: String,
    unit: Option<String>,
    res: Option<String>,
}

#[derive(Clone, Debug, PartialEq)]
struct IDirective {
    ns: String,
    dims: Vec<Vec<String>>,
    metrics: Vec<IDecl>,
}

#[derive(Clone, Debug, PartialEq)]
enum IVal {
    Str(String),
    Num(String),
    Hist(Vec<String>, Vec<String>),
}

#[derive(Clone, Debug)]
struct IRecord {
    ts: String,
    log_group: Option<String>,
    directives: Vec<IDirective>,
    members: Vec<(String, IVal)>,
}

fn one<'a>(ms: &'a [(String, J)], key: &str) -> Result<&'a J, String> {
    let mut it = ms.iter().filter(|(k, _)| k == key);
    match (it.next(), it.next()) {
        (Some((_, v)), None) => Ok(v),
        (None, _) => Err(format!("member {key:?} missing")),
        _ => Err(format!("member {key:?} twice")),
    }
}

fn opt<'a>(ms: &'a [(String, J)], key: &str) -> Result<Option<&'a J>, String> {
    let mut it = ms.iter().filter(|(k, _)| k == key);
    match (it.next(), it.next()) {
        (Some((_, v)), None) => Ok(Some(v)),
        (None, _) => Ok(None),
        _ => Err(format!("member {key:?} twice")),
    }
}

fn only_keys(ms: &[(String, J)], allowed: &[&str]) -> Result<(), String> {
    for (k, _) in ms {
        if !allowed.contains(&k.as_str()) {
            return Err(format!("unexpected member {k:?}"));
        }
    }
    Ok(())
}

fn as_str(j: &J) -> Result<String, String> {
    if let J::Str(s) = j { Ok(s.clone()) } else { Err(format!("expected a string, found {j:?}")) }
}
fn as_num(j: &J) -> Result<String, String> {
    if let J::Num(s) = j { Ok(s.clone()) } else { Err(format!("expected a number, found {j:?}")) }
}
fn as_arr(j: &J) -> Result<&Vec<J>, String> {
    if let J::Arr(s) = j { Ok(s) } else { Err(format!("expected an array, found {j:?}")) }
}
fn as_obj(j: &J) -> Result<&Vec<(String, J)>, String> {
    if let J::Obj(s) = j { Ok(s) } else { Err(format!("expected an object, found {j:?}")) }
}

fn to_record(j: &J) -> Result<IRecord, String> {
    let top = as_obj(j)?;
    let Some((first, aws)) = top.first() else { return Err("empty record".into()) };
    if first != "_aws" {
        return Err("first member is not _aws".into());
    }
    let aws = as_obj(aws)?;
    only_keys(aws, &["CloudWatchMetrics", "Timestamp", "LogGroupName"])?;
    let ts = as_num(one(aws, "Timestamp")?)?;
    let log_group = match opt(aws, "LogGroupName")? {
        Some(g) => Some(as_str(g)?),
        None => None,
    };
    let mut directives = vec![];
    for d in as_arr(one(aws, "CloudWatchMetrics")?)? {
        let d = as_obj(d)?;
        only_keys(d, &["Namespace", "Dimensions", "Metrics"])?;
        let ns = as_str(one(d, "Namespace")?)?;
        let mut dims = vec![];
        for set in as_arr(one(d, "Dimensions")?)? {
            dims.push(as_arr(set)?.iter().map(as_str).collect::<Result<Vec<_>, _>>()?);
        }
        let mut metrics = vec![];
        for m in as_arr(one(d, "Metrics")?)? {
            let m = as_obj(m)?;
            only_keys(m, &["Name", "Unit", "StorageResolution"])?;
            metrics.push(IDecl {
                name: as_str(one(m, "Name")?)?,
                unit: match opt(m, "Unit")? {
                    Some(u) => Some(as_str(u)?),
                    None => None,
                },
                res: match opt(m, "StorageResolution")? {
                    Some(u) => Some(as_num(u)?),
                    None => None,
                },
            });
        }
        directives.push(IDirective { ns, dims, metrics });
    }
    let mut members = vec![];
    for (k, v) in &top[1..] {
        let val = match v {
            J::Str(s) => IVal::Str(s.clone()),
            J::Num(n) => IVal::Num(n.clone()),
            J::Obj(ms) => {
                only_keys(ms, &["Values", "Counts"])?;
                let vs = as_arr(one(ms, "Values")?)?.iter().map(as_num).collect::<Result<Vec<_>, _>>()?;
                let cs = as_arr(one(ms, "Counts")?)?.iter().map(as_num).collect::<Result<Vec<_>, _>>()?;
                IVal::Hist(vs, cs)
            }
            other => return Err(format!("member {k:?} has unexpected value {other:?}")),
        };
        members.push((k.clone(), val));
    }
    Ok(IRecord { ts, log_group, directives, members })
}

// ------------------------------------------------------------------------------------------------
// running the implementation

#[derive(Clone, Debug, PartialEq)]
enum Outcome {
    Ok,
    /// (kind, field name) of every recorded validation failure, sorted
    Validation(Vec<String>),
    Io(String),
    Panic(String),
}

impl Outcome {
    fn class(&self) -> &'static str {
        match self {
            Outcome::Ok => "ok",
            Outcome::Validation(_) => "validation",
            Outcome::Io(_) => "io",
            Outcome::Panic(_) => "panic",
        }
    }
    fn render(&self) -> String {
        match self {
            Outcome::Ok => "ok".into(),
            Outcome::Validation(k) => format!("err {}", k.join(",")),
            Outcome::Io(e) => format!("io {e}"),
            Outcome::Panic(p) => format!("panic {p}"),
        }
    }
}

/// the strings of a `ValidationError` from its `Debug` output (`["..", ".."]`, `str::escape_debug`)
fn parse_debug_list(s: &str) -> Vec<String> {
    let cs: Vec<char> = s.chars().collect();
    let mut out = vec![];
    let mut i = 0;
    while i < cs.len() {
        if cs[i] != '"' {
            i += 1;
            continue;
        }
        i += 1;
        let mut cur = String::new();
        while i < cs.len() && cs[i] != '"' {
            if cs[i] == '\\' && i + 1 < cs.len() {
                i += 1;
                match cs[i] {
                    'n' => cur.push('\n'),
                    'r' => cur.push('\r'),
                    't' => cur.push('\t'),
                    '0' => cur.push('\0'),
                    'u' => {
                        // \u{XXXX}
                        let mut j = i + 2;
                        let mut v = 0u32;
                        while j < cs.len() && cs[j] != '}' {
                            v = v * 16 + cs[j].to_digit(16).unwrap_or(0);
                            j += 1;
                        }
                        cur.push(char::from_u32(v).unwrap_or('\u{fffd}'));
                        i = j;
                    }
                    c => cur.push(c),
                }
            } else {
                cur.push(cs[i]);
            }
            i += 1;
        }
        i += 1;
        out.push(cur);
    }
    out
}

const REASONS: &[(&str, &str)] = &[
    ("duplicate field", "duplicate"),
    ("name can't be empty", "empty-name"),
    ("name can't be `_aws`", "aws-name"),
    ("can't use metric in dimension field", "metric-in-dimension"),
    ("missing dimension", "missing-dimension"),
    (
        "can't use per-metric dimensions without split entries - you probably want to remove WithDimensions<>",
        "per-metric-dims",
    ),
];

fn classify_error(msg: &str, entry: &GenEntry) -> String {
    match msg {
        "multiple timestamps written" => return "multiple-timestamps:-".into(),
        "entry dimensions must be configured before emitting a metric with custom dimensions" => {
            return "dims-late:-".into();
        }
        "entry dimensions cannot be set twice" => return "dims-twice:-".into(),
        "entry dimensions cannot be empty" => return "dims-empty:-".into(),
        _ => {}
    }
    // a value's own error: the message is known from the entry
    for it in &entry.items {
        if let GItem::Value(n, GVal::Error(m)) = it {
            if msg == format!("for `{n}`: {m}") {
                return format!("value-error:{}", hex(n.as_bytes()));
            }
        }
    }
    for (reason, kind) in REASONS {
        if let Some(head) = msg.strip_suffix(&format!("`: {reason}")) {
            if let Some(name) = head.strip_prefix("for `") {
                let name = if *kind == "empty-name" { "" } else { name };
                return format!("{kind}:{}", hex(name.as_bytes()));
            }
        }
    }
    format!("unknown:{}", hex(msg.as_bytes()))
}

fn outcome_of(r: Result<Result<(), IoStreamError>, String>, entry: &GenEntry) -> Outcome {
    match r {
        Ok(Ok(())) => Outcome::Ok,
        Ok(Err(IoStreamError::Validation(e))) => {
            let mut kinds: Vec<String> =
                parse_debug_list(&format!("{e:?}")).iter().map(|m| classify_error(m, entry)).collect();
            kinds.sort();
            Outcome::Validation(kinds)
        }
        Ok(Err(IoStreamError::Io(e))) => Outcome::Io(format!("{:?}", e.kind())),
        Err(p) => Outcome::Panic(p),
    }
}

/// formats `entry` with an existing formatter instance
fn run_on(f: &mut BuiltFmt, entry: &GenEntry) -> (Outcome, Vec<u8>) {
    let mut out = Vec::new();
    let r = catch(|| f.format(entry, &mut out));
    (outcome_of(r, entry), out)
}

/// fresh formatter, the history first (its output is dropped), then the entry
fn run_with_history(cfg: &EmfCfg, history: &[GenEntry], entry: &GenEntry) -> (Outcome, Vec<u8>) {
    let Some(mut f) = cfg.build_fmt() else { return (Outcome::Panic("unsupported multiplicity".into()), vec![]) };
    for h in history {
        let _ = run_on(&mut f, h);
    }
    run_on(&mut f, entry)
}

fn run_with(cfg: &EmfCfg, entry: &GenEntry) -> (Outcome, Vec<u8>) {
    run_with_history(cfg, &[], entry)
}

fn lines_of(bytes: &[u8]) -> Vec<Vec<u8>> {
    bytes.split_inclusive(|b| *b == b'\n').map(|l| l.to_vec()).collect()
}

struct ImplRun {
    outcome: Outcome,
    bytes: Vec<u8>,
    /// per output line: the parsed tree
    trees: Result<Vec<J>, String>,
    records: Result<Vec<IRecord>, String>,
}

fn run_impl(c: &Case) -> ImplRun {
    let (outcome, bytes) = run_with_history(&c.cfg, &c.history, &c.entry);
    parse_run(outcome, bytes)
}

fn parse_run(outcome: Outcome, bytes: Vec<u8>) -> ImplRun {
    let mut trees = Ok(vec![]);
    for l in lines_of(&bytes) {
        let r = (|| {
            let s = std::str::from_utf8(&l).map_err(|e| e.to_string())?;
            let s = s.strip_suffix('\n').ok_or("line does not end in a newline")?;
            serde_json::from_str::<serde_json::Value>(s).map_err(|e| format!("serde_json rejects the line: {e}"))?;
            parse_json(s)
        })();
        match (r, &mut trees) {
            (Ok(j), Ok(v)) => v.push(j),
            (Err(e), t @ Ok(_)) => *t = Err(e),
            _ => {}
        }
    }
    let records = match &trees {
        Ok(ts) => ts.iter().map(to_record).collect::<Result<Vec<_>, _>>(),
        Err(e) => Err(e.clone()),
    };
    ImplRun { outcome, bytes, trees, records }
}

// ------------------------------------------------------------------------------------------------
// numbers

#[derive(Clone, Debug, PartialEq)]
enum Expect {
    Int(u64),
    Flt(u64),
    /// not compared (system clock)
    Any,
}

fn num_matches(e: &Expect, text: &str) -> bool {
    match e {
        Expect::Any => true,
        // integers are printed by itoa: the exact decimal text
        Expect::Int(v) => text == v.to_string(),
        // floats: any JSON number text that reads back as exactly this double
        Expect::Flt(bits) => text.parse::<f64>().map(|x| x.to_bits() == *bits).unwrap_or(false),
    }
}

fn render_expect(e: &Expect) -> String {
    match e {
        Expect::Any => "*".into(),
        Expect::Int(v) => format!("i{v}"),
        Expect::Flt(b) => format!("f{:016x}({:?})", b, f64::from_bits(*b)),
    }
}

// ------------------------------------------------------------------------------------------------
// C03 oracle: the parsed output against the repo's recording writer

fn clamp(x: f64) -> f64 {
    if x == f64::INFINITY {
        f64::MAX
    } else if x == f64::NEG_INFINITY {
        -f64::MAX
    } else {
        x
    }
}

/// the usable observations of a metric: (value, count) in order, per the property statement
fn expected_observations(obs: &[Observation], mult: Option<u64>) -> Vec<(Expect, u64)> {
    let m = mult.unwrap_or(1) as u128;
    let times = |occ: u64| -> u64 { (occ as u128 * m).min(u64::MAX as u128) as u64 };
    let mut out = vec![];
    for o in obs {
        match *o {
            Observation::Unsigned(v) => out.push((Expect::Int(v), times(1))),
            Observation::Floating(x) => {
                if !x.is_nan() {
                    out.push((Expect::Flt(clamp(x).to_bits()), times(1)))
                }
            }
            Observation::Repeated { total, occurrences } => {
                let mean = if occurrences == 0 { 0.0 } else { total / occurrences as f64 };
                if !mean.is_nan() {
                    out.push((Expect::Flt(clamp(mean).to_bits()), times(occurrences)))
                }
            }
            _ => {}
        }
    }
    out
}

fn value_names(e: &GenEntry) -> Vec<&str> {
    e.items
        .iter()
        .filter_map(|it| match it {
            GItem::Value(n, _) => Some(n.as_str()),
            GItem::Unroutable(..) => Some("MetriqueValidationError"),
            _ => None,
        })
        .collect()
}

fn sorted_dims(d: &[(String, String)]) -> Vec<(String, String)> {
    let mut d = d.to_vec();
    d.sort();
    d
}

/// the record a metric is routed to: `None` = the record without per-metric dimensions
fn route(cfg: &EmfCfg, dims: &[(String, String)]) -> Option<Vec<(String, String)>> {
    if cfg.allow_ignored || dims.is_empty() { None } else { Some(sorted_dims(dims)) }
}

/// per-metric dimension keys that collide with another member of the split record (the class of the
/// confirmed defect: such keys are not validated)
fn dim_keys_disjoint(cfg: &EmfCfg, e: &GenEntry) -> bool {
    let strings: BTreeSet<&str> = e
        .items
        .iter()
        .filter_map(|it| match it {
            GItem::Value(n, GVal::Str(_)) => Some(n.as_str()),
            GItem::Unroutable(..) => Some("MetriqueValidationError"),
            _ => None,
        })
        .collect();
    let metrics: Vec<(&str, Option<Vec<(String, String)>>)> = e
        .items
        .iter()
        .filter_map(|it| match it {
            GItem::Value(n, GVal::Metric { dims, .. }) => Some((n.as_str(), route(cfg, dims))),
            _ => None,
        })
        .collect();
    for (_, r) in &metrics {
        let Some(k) = r else { continue };
        let keys: Vec<&str> = k.iter().map(|(a, _)| a.as_str()).collect();
        let distinct: BTreeSet<&str> = keys.iter().copied().collect();
        if distinct.len() != keys.len() {
            return false;
        }
        for key in keys {
            // same clauses as `EmfSpec.dimKeysDisjoint` (keysNotAws, keysNotStrings, keysNotMetrics)
            if key == "_aws" || strings.contains(key) {
                return false;
            }
            if metrics.iter().any(|(n, r2)| r2.as_ref() == Some(k) && *n == key) {
                return false;
            }
        }
    }
    true
}

fn cd_items(e: &GenEntry) -> Vec<&Vec<Vec<String>>> {
    e.items.iter().filter_map(|it| if let GItem::EntryDims(s, _) = it { Some(s) } else { None }).collect()
}

/// `None` when the entry is outside the domain the property documents (then only the model is compared)
fn c03_domain(c: &Case) -> Option<&'static str> {
    let names = value_names(&c.entry);
    let set: BTreeSet<&str> = names.iter().copied().collect();
    if set.len() != names.len() {
        return Some("names not unique");
    }
    if !dim_keys_disjoint(&c.cfg, &c.entry) {
        return Some("per-metric dimension key collides with a member");
    }
    if c.entry.items.iter().any(|it| matches!(it, GItem::Value(_, GVal::Error(_)))) {
        return Some("value error");
    }
    if cd_items(&c.entry).len() > 1 {
        return Some("entry dimensions twice");
    }
    None
}

fn c03_oracle(c: &Case, run: &ImplRun) -> Option<String> {
    if run.outcome != Outcome::Ok {
        return None; // rejections are C08's subject
    }
    let records = match &run.records {
        Ok(r) => r,
        Err(e) => return Some(format!("output is not a sequence of EMF records: {e}")),
    };
    if records.is_empty() {
        return Some("Ok returned but no record was written".into());
    }
    let te: TestEntry = match catch(|| to_test_entry(c.entry.clone())) {
        Ok(t) => t,
        Err(_) => return None,
    };
    let mult = c.cfg.multiplicity;
    // flags are not recorded by the test writer: read them from the entry description
    let flags: BTreeMap<&str, GFlags> = c
        .entry
        .items
        .iter()
        .filter_map(|it| match it {
            GItem::Value(n, GVal::Metric { flags, .. }) => Some((n.as_str(), *flags)),
            _ => None,
        })
        .collect();

    // (c) timestamp
    let want_ts: Option<String> = te.timestamp.map(|t| match t.duration_since(SystemTime::UNIX_EPOCH) {
        Ok(d) => (d.as_micros() / 1000).to_string(),
        Err(_) => "0".to_string(),
    });
    // (d) dimension sets
    let base: Vec<Vec<String>> = match cd_items(&c.entry).first() {
        None => c.cfg.default_dims.clone(),
        Some(sets) => {
            let mut out = vec![];
            for d in &c.cfg.default_dims {
                for s in sets.iter() {
                    let mut x = d.clone();
                    x.extend(s.iter().cloned());
                    out.push(x);
                }
            }
            out
        }
    };

    for (ri, r) in records.iter().enumerate() {
        if let Some(w) = &want_ts {
            if &r.ts != w {
                return Some(format!("record {ri}: Timestamp {} but the entry's timestamp is {w} ms", r.ts));
            }
        }
        // namespaces replicated in order
        let ns: Vec<&str> = r.directives.iter().take(c.cfg.namespaces.len()).map(|d| d.ns.as_str()).collect();
        if ns != c.cfg.namespaces.iter().map(|s| s.as_str()).collect::<Vec<_>>() {
            return Some(format!("record {ri}: directives are for namespaces {ns:?}, configured {:?}", c.cfg.namespaces));
        }
        // (a) strings
        for (name, text) in te.values.iter() {
            let found: Vec<&IVal> = r.members.iter().filter(|(k, _)| k == name).map(|(_, v)| v).collect();
            if found.len() != 1 || found[0] != &IVal::Str(text.clone()) {
                return Some(format!("record {ri}: string property {name:?}={text:?} appears as {found:?}"));
            }
        }
        // members all accounted for: strings, metrics, per-metric dimensions of a metric in this record
        let rec_metrics: Vec<&String> =
            r.members.iter().map(|(k, _)| k).filter(|k| te.metrics.contains_key(k.as_str())).collect();
        let ext: Vec<(String, String)> = match rec_metrics.first() {
            Some(k) => route(&c.cfg, &te.metrics[k.as_str()].dimensions).unwrap_or_default(),
            None => vec![],
        };
        for (k, v) in &r.members {
            let known = te.values.contains_key(k)
                || te.metrics.contains_key(k)
                || ext.iter().any(|(dk, dv)| dk == k && &IVal::Str(dv.clone()) == v);
            if !known {
                return Some(format!("record {ri}: member {k:?} is neither a property, a metric nor a dimension of the entry"));
            }
        }
        // (d) dimension sets of this record: base sets extended by the per-metric dimension keys
        let want_dims: Vec<Vec<String>> = base
            .iter()
            .map(|d| {
                let mut x = d.clone();
                x.extend(ext.iter().map(|(k, _)| k.clone()));
                x
            })
            .collect();
        for d in r.directives.iter().take(c.cfg.namespaces.len()) {
            if d.dims != want_dims {
                return Some(format!("record {ri}: namespace {:?} has Dimensions {:?}, expected {:?}", d.ns, d.dims, want_dims));
            }
        }
        for (dk, dv) in &ext {
            if !r.members.iter().any(|(k, v)| k == dk && v == &IVal::Str(dv.clone())) {
                return Some(format!("record {ri}: per-metric dimension {dk:?}={dv:?} is not a string member"));
            }
        }
        if ext.is_empty() && rec_metrics.is_empty() && records.len() > 1 {
            return Some(format!("record {ri}: a record without metrics was written although other records exist"));
        }
    }

    // (b) metrics
    for (name, m) in te.metrics.iter() {
        let want = expected_observations(&m.distribution, mult);
        let holders: Vec<(usize, &IVal)> = records
            .iter()
            .enumerate()
            .flat_map(|(ri, r)| r.members.iter().filter(|(k, _)| k == name).map(move |(_, v)| (ri, v)))
            .collect();
        let declared_in: Vec<(usize, &IDirective, &IDecl)> = records
            .iter()
            .enumerate()
            .flat_map(|(ri, r)| {
                r.directives
                    .iter()
                    .take(c.cfg.namespaces.len())
                    .flat_map(move |d| d.metrics.iter().filter(move |x| &x.name == name).map(move |x| (ri, d, x)))
            })
            .collect();
        if want.is_empty() {
            if !holders.is_empty() || !declared_in.is_empty() {
                return Some(format!("metric {name:?} has no usable observation but appears in the output"));
            }
            continue;
        }
        if holders.len() != 1 {
            return Some(format!("metric {name:?} appears {} times in the output", holders.len()));
        }
        let (ri, val) = holders[0];
        let (vals, counts): (Vec<String>, Vec<String>) = match val {
            IVal::Num(t) => (vec![t.clone()], vec!["1".to_string()]),
            IVal::Hist(v, c) => (v.clone(), c.clone()),
            IVal::Str(_) => return Some(format!("metric {name:?} is a string member")),
        };
        if vals.len() != counts.len() {
            return Some(format!("metric {name:?}: {} Values but {} Counts", vals.len(), counts.len()));
        }
        if vals.len() != want.len() {
            return Some(format!("metric {name:?}: {} values written, {} usable observations", vals.len(), want.len()));
        }
        for (i, ((v, cnt), (wv, wc))) in vals.iter().zip(&counts).zip(&want).enumerate() {
            if !num_matches(wv, v) {
                return Some(format!("metric {name:?} value {i}: wrote {v}, expected {}", render_expect(wv)));
            }
            if cnt != &wc.to_string() {
                return Some(format!("metric {name:?} count {i}: wrote {cnt}, expected {wc}"));
            }
        }
        // the record it is in carries its dimensions
        let want_ext = route(&c.cfg, &m.dimensions).unwrap_or_default();
        let r = &records[ri];
        for (dk, dv) in &want_ext {
            if !r.members.iter().any(|(k, v)| k == dk && v == &IVal::Str(dv.clone())) {
                return Some(format!("metric {name:?}: its record lacks the dimension member {dk:?}={dv:?}"));
            }
        }
        let want_dims: Vec<Vec<String>> = base
            .iter()
            .map(|d| {
                let mut x = d.clone();
                x.extend(want_ext.iter().map(|(k, _)| k.clone()));
                x
            })
            .collect();
        if r.directives.iter().take(c.cfg.namespaces.len()).any(|d| d.dims != want_dims) {
            return Some(format!("metric {name:?}: its record's dimension sets are not {want_dims:?}"));
        }
        // declarations
        let flag = flags.get(name.as_str()).copied().unwrap_or(GFlags::None);
        if flag == GFlags::NoMetric {
            if !declared_in.is_empty() {
                return Some(format!("no-metric {name:?} is declared in a directive"));
            }
            continue;
        }
        let want_unit = if m.unit == Unit::None { None } else { Some(m.unit.name().to_string()) };
        let want_res = if flag == GFlags::HighRes { Some("1".to_string()) } else { None };
        for d in r.directives.iter().take(c.cfg.namespaces.len()) {
            let ds: Vec<&IDecl> = d.metrics.iter().filter(|x| &x.name == name).collect();
            if ds.len() != 1 {
                return Some(format!("metric {name:?} is declared {} times for namespace {:?}", ds.len(), d.ns));
            }
            if ds[0].unit != want_unit || ds[0].res != want_res {
                return Some(format!(
                    "metric {name:?} declared as unit {:?} resolution {:?} for namespace {:?}, expected {want_unit:?} {want_res:?}",
                    ds[0].unit, ds[0].res, d.ns
                ));
            }
        }
        if declared_in.iter().any(|(r2, _, _)| *r2 != ri) {
            return Some(format!("metric {name:?} is declared in a record that does not contain it"));
        }
    }
    // every declaration belongs to a metric present in the same record
    for (ri, r) in records.iter().enumerate() {
        for d in r.directives.iter().take(c.cfg.namespaces.len()) {
            for x in &d.metrics {
                if !r.members.iter().any(|(k, v)| k == &x.name && !matches!(v, IVal::Str(_))) {
                    return Some(format!("record {ri}: {:?} is declared but is not a metric member", x.name));
                }
            }
        }
    }
    None
}

// ------------------------------------------------------------------------------------------------
// C08 oracle

/// The defects the property lists, read off the entry description (independent of the Lean model).
fn defects(cfg: &EmfCfg, e: &GenEntry) -> BTreeSet<&'static str> {
    let mut out = BTreeSet::new();
    if e.items.iter().filter(|it| matches!(it, GItem::Timestamp(_))).count() > 1 {
        out.insert("two-timestamps");
    }
    for it in &e.items {
        if let GItem::Value(n, _) = it {
            if n.is_empty() {
                out.insert("empty-name");
            }
            if n == "_aws" {
                out.insert("reserved-name");
            }
        }
    }
    // two values under one name in the same record
    enum W<'a> {
        S(&'a str),
        M(&'a str, Option<Vec<(String, String)>>),
    }
    let written: Vec<W> = e
        .items
        .iter()
        .filter_map(|it| match it {
            GItem::Value(n, GVal::Str(_)) => Some(W::S(n)),
            GItem::Unroutable(..) => Some(W::S("MetriqueValidationError")),
            GItem::Value(n, GVal::Metric { dims, .. }) => Some(W::M(n, route(cfg, dims))),
            _ => None,
        })
        .collect();
    for i in 0..written.len() {
        for j in i + 1..written.len() {
            let clash = match (&written[i], &written[j]) {
                (W::M(a, ra), W::M(b, rb)) => a == b && ra == rb,
                (W::S(a), W::S(b)) | (W::S(a), W::M(b, _)) | (W::M(a, _), W::S(b)) => a == b,
            };
            if clash {
                out.insert("two-values-one-name");
            }
        }
    }
    let mut declared: Vec<&str> = cfg.default_dims.iter().flatten().map(|s| s.as_str()).collect();
    for sets in cd_items(e) {
        declared.extend(sets.iter().flatten().map(|s| s.as_str()));
    }
    for w in &written {
        if let W::M(n, _) = w {
            if declared.contains(n) {
                out.insert("metric-under-dimension-name");
            }
        }
    }
    for d in &declared {
        if !written.iter().any(|w| matches!(w, W::S(n) if n == d)) {
            out.insert("missing-dimension");
        }
    }
    let mut split = false;
    let mut routed = false;
    for it in &e.items {
        match it {
            GItem::AllowSplit(_) => split = true,
            GItem::Value(_, GVal::Metric { dims, .. }) if route(cfg, dims).is_some() => {
                if !split {
                    out.insert("per-metric-dimensions-without-split");
                }
                routed = true;
            }
            GItem::EntryDims(sets, _) => {
                if sets.is_empty() {
                    out.insert("entry-dimensions-empty");
                }
                if routed {
                    out.insert("entry-dimensions-late");
                }
            }
            _ => {}
        }
    }
    if cd_items(e).len() > 1 {
        out.insert("entry-dimensions-repeated");
    }
    out
}

fn has_value_error(e: &GenEntry) -> bool {
    e.items.iter().any(|it| matches!(it, GItem::Value(_, GVal::Error(_))))
}

fn has_unroutable(e: &GenEntry) -> bool {
    e.items.iter().any(|it| matches!(it, GItem::Unroutable(..)))
}

fn sorted_lines(b: &[u8]) -> Vec<Vec<u8>> {
    let mut l = lines_of(b);
    l.sort();
    l
}

/// For entries without a timestamp the formatter reads the system clock: blank the digits after the
/// first `"Timestamp":` of every line (the `_aws` block comes first, and inside JSON strings a quote is
/// escaped, so the first raw occurrence is the `_aws` one).
fn mask_timestamp(b: &[u8]) -> Vec<u8> {
    let pat = b"\"Timestamp\":";
    let mut out = Vec::with_capacity(b.len());
    for line in lines_of(b) {
        match line.windows(pat.len()).position(|w| w == pat) {
            Some(p) => {
                let start = p + pat.len();
                let mut end = start;
                while end < line.len() && line[end].is_ascii_digit() {
                    end += 1;
                }
                out.extend_from_slice(&line[..start]);
                out.push(b'T');
                out.extend_from_slice(&line[end..]);
            }
            None => out.extend_from_slice(&line),
        }
    }
    out
}

/// (key, description) of the first failure
fn c08_oracle(c: &Case, run: &ImplRun) -> Option<(&'static str, String)> {
    if let Outcome::Panic(p) = &run.outcome {
        return Some(("emf:panic", format!("formatting panicked: {p}")));
    }
    if run.outcome != Outcome::Ok && !run.bytes.is_empty() {
        return Some(("emf:error-with-output", format!("{} returned but {} bytes were written", run.outcome.class(), run.bytes.len())));
    }
    let d = defects(&c.cfg, &c.entry);
    let verr = has_value_error(&c.entry);
    let unroutable = has_unroutable(&c.entry);
    if verr && run.outcome == Outcome::Ok {
        return Some(("emf:value-error-ignored", "a value reported an error but the entry was accepted".into()));
    }
    if !c.cfg.validates() {
        return None;
    }
    // soundness: no emitted record has two members with the same name
    // (entries carrying AllowUnroutableEntries are documented to be exempt from the uniqueness check)
    if run.outcome == Outcome::Ok && !unroutable {
        match &run.trees {
            Err(e) => return Some(("emf:unparsable", format!("accepted output does not parse: {e}"))),
            Ok(ts) => {
                let mut dups = vec![];
                ts.iter().for_each(|t| duplicate_members(t, &mut dups));
                if !dups.is_empty() {
                    let key = if !dim_keys_disjoint(&c.cfg, &c.entry) {
                        "emf:dup-member:split-dimension-key"
                    } else {
                        "emf:dup-member"
                    };
                    return Some((key, format!("all validations on, entry accepted, but a record has duplicate member(s) {dups:?}")));
                }
            }
        }
    }
    if !d.is_empty() && !unroutable && run.outcome == Outcome::Ok {
        return Some(("emf:defect-accepted", format!("validations on, defects {d:?}, but the entry was accepted")));
    }
    if d.is_empty() && !verr {
        if run.outcome != Outcome::Ok {
            return Some(("emf:valid-rejected", format!("no listed defect and no value error, but the result is {}", run.outcome.render())));
        }
        // transparency: the same lines as a formatter that skips all validations
        let mut off = c.cfg.clone();
        off.how = 'S';
        let (o2, b2) = run_with(&off, &c.entry);
        let clock = !c.entry.items.iter().any(|it| matches!(it, GItem::Timestamp(_)));
        let norm = |b: &[u8]| if clock { sorted_lines(&mask_timestamp(b)) } else { sorted_lines(b) };
        if o2 != Outcome::Ok || norm(&b2) != norm(&run.bytes) {
            return Some((
                "emf:validation-changes-output",
                format!("output with validations differs from output without ({} vs {} bytes, {})", run.bytes.len(), b2.len(), o2.class()),
            ));
        }
    }
    None
}

// ------------------------------------------------------------------------------------------------
// model replies

#[derive(Clone, Debug)]
enum MVal {
    Str(String),
    Num(Expect),
    Hist(Vec<Expect>, Vec<u64>),
}

#[derive(Clone, Debug)]
struct MRecord {
    ts: Expect,
    log_group: Option<String>,
    directives: Vec<IDirective>,
    members: Vec<(String, MVal)>,
}

fn unhex_str(s: &str) -> Option<String> {
    String::from_utf8(unhex(s)?).ok()
}

fn parse_mnum(s: &str) -> Option<Expect> {
    let (k, r) = s.split_at(1);
    match k {
        "i" => r.parse().ok().map(Expect::Int),
        "f" => u64::from_str_radix(r, 16).ok().map(Expect::Flt),
        _ => None,
    }
}

fn parse_mrecord(s: &str) -> Option<MRecord> {
    let p: Vec<&str> = s.split(';').collect();
    // the member field may itself contain ';' (inside H…): re-join
    if p.len() < 4 {
        return None;
    }
    let ts = if p[0] == "now" { Expect::Any } else { Expect::Int(p[0].parse().ok()?) };
    let log_group = if p[1] == "~" { None } else { Some(unhex_str(p[1])?) };
    let mut directives = vec![];
    for d in p[2].split('/') {
        let f: Vec<&str> = d.split(':').collect();
        if f.len() != 3 {
            return None;
        }
        let dims = if f[1] == "^" {
            vec![]
        } else {
            f[1].split('+')
                .map(|set| if set == "_" { Some(vec![]) } else { set.split('.').map(unhex_str).collect::<Option<Vec<_>>>() })
                .collect::<Option<Vec<_>>>()?
        };
        let metrics = if f[2] == "-" {
            vec![]
        } else {
            f[2].split(',')
                .map(|m| {
                    let q: Vec<&str> = m.split('~').collect();
                    // name~unit~res with unit possibly "~" (absent) => name, "", "", res
                    match q.len() {
                        3 => Some(IDecl { name: unhex_str(q[0])?, unit: Some(unhex_str(q[1])?), res: if q[2] == "1" { Some("1".into()) } else { None } }),
                        4 if q[1].is_empty() && q[2].is_empty() => {
                            Some(IDecl { name: unhex_str(q[0])?, unit: None, res: if q[3] == "1" { Some("1".into()) } else { None } })
                        }
                        _ => None,
                    }
                })
                .collect::<Option<Vec<_>>>()?
        };
        directives.push(IDirective { ns: unhex_str(f[0])?, dims, metrics });
    }
    let ms = p[3..].join(";");
    let mut members = vec![];
    if ms != "-" {
        for m in ms.split(',') {
            let (n, v) = m.split_once('=')?;
            let name = unhex_str(n)?;
            let val = if let Some(h) = v.strip_prefix('S') {
                MVal::Str(unhex_str(h)?)
            } else if let Some(h) = v.strip_prefix('H') {
                let (vs, cs) = h.split_once('#')?;
                MVal::Hist(
                    vs.split(';').map(parse_mnum).collect::<Option<Vec<_>>>()?,
                    cs.split(';').map(|c| c.parse().ok()).collect::<Option<Vec<_>>>()?,
                )
            } else {
                MVal::Num(parse_mnum(v)?)
            };
            members.push((name, val));
        }
    }
    Some(MRecord { ts, log_group, directives, members })
}

/// skeleton (everything but the numbers) + the numbers in a fixed traversal order
fn skeleton<V>(
    log_group: &Option<String>,
    directives: &[IDirective],
    members: &[(String, V)],
    mut val: impl FnMut(&V, &mut String),
) -> String {
    let mut s = format!("lg={log_group:?};");
    for d in directives {
        let mut ms = d.metrics.clone();
        ms.sort_by(|a, b| a.name.as_bytes().cmp(b.name.as_bytes()));
        s.push_str(&format!("dir[{:?}|{:?}|{:?}];", d.ns, d.dims, ms));
    }
    let mut idx: Vec<usize> = (0..members.len()).collect();
    idx.sort_by(|a, b| members[*a].0.as_bytes().cmp(members[*b].0.as_bytes()));
    for i in idx {
        s.push_str(&format!("{:?}=", members[i].0));
        val(&members[i].1, &mut s);
        s.push(';');
    }
    s
}

fn canon_impl(r: &IRecord) -> (String, Vec<String>) {
    let mut nums = vec![r.ts.clone()];
    let skel = skeleton(&r.log_group, &r.directives, &r.members, |v, s| match v {
        IVal::Str(t) => s.push_str(&format!("S{t:?}")),
        IVal::Num(n) => {
            nums.push(n.clone());
            s.push('#');
        }
        IVal::Hist(v, c) => {
            nums.extend(v.iter().cloned());
            nums.extend(c.iter().cloned());
            s.push_str(&format!("H{}/{}", v.len(), c.len()));
        }
    });
    (skel, nums)
}

fn canon_model(r: &MRecord) -> (String, Vec<Expect>) {
    let mut nums = vec![r.ts.clone()];
    let skel = skeleton(&r.log_group, &r.directives, &r.members, |v, s| match v {
        MVal::Str(t) => s.push_str(&format!("S{t:?}")),
        MVal::Num(n) => {
            nums.push(n.clone());
            s.push('#');
        }
        MVal::Hist(v, c) => {
            nums.extend(v.iter().cloned());
            nums.extend(c.iter().map(|x| Expect::Int(*x)));
            s.push_str(&format!("H{}/{}", v.len(), c.len()));
        }
    });
    (skel, nums)
}

/// what the implementation did, in the form it is compared in
enum ImplCanon {
    Records(Vec<(String, Vec<String>)>),
    Other(String),
}

fn impl_canon(run: &ImplRun) -> ImplCanon {
    match (&run.outcome, &run.records) {
        (Outcome::Ok, Ok(rs)) => {
            let mut v: Vec<_> = rs.iter().map(canon_impl).collect();
            v.sort();
            ImplCanon::Records(v)
        }
        (Outcome::Ok, Err(e)) => ImplCanon::Other(format!("ok but unparsable: {e}")),
        (o, _) => ImplCanon::Other(o.render()),
    }
}

fn render_impl_canon(c: &ImplCanon) -> String {
    match c {
        ImplCanon::Other(s) => s.clone(),
        ImplCanon::Records(rs) => format!("ok {}", rs.iter().map(|(s, n)| format!("{s} nums={n:?}")).collect::<Vec<_>>().join(" | ")),
    }
}

/// `None` = agree
fn compare(ic: &ImplCanon, reply: &str) -> Option<String> {
    if let Some(rest) = reply.strip_prefix("err ") {
        let mut kinds: Vec<String> = rest.split(',').map(|s| s.to_string()).collect();
        kinds.sort();
        let want = format!("err {}", kinds.join(","));
        return match ic {
            ImplCanon::Other(s) if *s == want => None,
            _ => Some(want),
        };
    }
    let Some(rest) = reply.strip_prefix("ok ") else { return Some(reply.to_string()) };
    let mut mrs = vec![];
    for r in rest.split('|') {
        match parse_mrecord(r) {
            Some(m) => mrs.push(canon_model(&m)),
            None => return Some(format!("unparsable model reply: {reply}")),
        }
    }
    mrs.sort_by(|a, b| a.0.cmp(&b.0));
    let render = || format!("ok {}", mrs.iter().map(|(s, n)| format!("{s} nums=[{}]", n.iter().map(render_expect).collect::<Vec<_>>().join(", "))).collect::<Vec<_>>().join(" | "));
    let ImplCanon::Records(irs) = ic else { return Some(render()) };
    if irs.len() != mrs.len() {
        return Some(render());
    }
    for ((is, inums), (ms, mnums)) in irs.iter().zip(&mrs) {
        if is != ms || inums.len() != mnums.len() || !mnums.iter().zip(inums).all(|(e, t)| num_matches(e, t)) {
            return Some(render());
        }
    }
    None
}

// ------------------------------------------------------------------------------------------------
// generators

const NS_POOL: &[&str] = &["Ns", "MyApp", "n\"s", "é/ns", "N2", "Other\\"];
const DIM_POOL: &[&str] = &["AZ", "Region", "Operation", "Foo", "d\"q", "é", "Bar"];
const KEY_POOL: &[&str] = &["Dim", "Zone", "Kind", "k\"", "ü"];
const KEYVAL_POOL: &[&str] = &["v0", "v1", "v2", "", "x\"y", "é"];
// powers of two up to 2^52 (so that n + 1 is exact in f64 and alpha = 1) and the saturating maximum
const MULTS: &[u64] = &[1, 2, 4, 1 << 20, 1 << 52, u64::MAX];

fn distinct_from(rng: &mut Rng, pool: &[&str], n: usize) -> Vec<String> {
    let mut p: Vec<&str> = pool.to_vec();
    rng.shuffle(&mut p);
    p.into_iter().take(n).map(|s| s.to_string()).collect()
}

fn gen_cfg(rng: &mut Rng, validating_bias: bool) -> EmfCfg {
    // only `Emf::all_validations` (expressible for the trivial configuration) validates without debug
    // assertions: make it more frequent there
    let trivial = if validating_bias && !cfg!(debug_assertions) { rng.chance(7, 10) } else { rng.chance(2, 5) };
    let n_sets = rng.range(1, 3) as usize;
    let default_dims: Vec<Vec<String>> = (0..n_sets)
        .map(|_| {
            let k = *rng.pick(&[0usize, 0, 1, 1, 2]);
            distinct_from(rng, DIM_POOL, k)
        })
        .collect();
    let multiplicity = if rng.chance(1, 2) { None } else { Some(*rng.pick(MULTS)) };
    if trivial {
        let how = if validating_bias {
            *rng.pick(&['A', 'A', 'A', 'B', 'F', 'N'])
        } else {
            *rng.pick(&['A', 'A', 'B', 'F', 'N', 'S'])
        };
        return EmfCfg {
            how,
            namespaces: vec![rng.pick(NS_POOL).to_string()],
            default_dims,
            log_group: None,
            allow_ignored: false,
            extra_directive: false,
            multiplicity,
        };
    }
    let how = if validating_bias { *rng.pick(&['B', 'B', 'F', 'F', 'N', 'S']) } else { *rng.pick(&['B', 'F', 'N', 'S']) };
    EmfCfg {
        how,
        namespaces: {
            let n = *rng.pick(&[1usize, 1, 2, 3]);
            distinct_from(rng, NS_POOL, n)
        },
        default_dims,
        log_group: if rng.chance(1, 3) { Some(rng.pick(&["Group", "g\"", "é"]).to_string()) } else { None },
        allow_ignored: rng.chance(1, 4),
        extra_directive: rng.chance(1, 4),
        multiplicity,
    }
}

fn gen_obs_list(rng: &mut Rng) -> Vec<Observation> {
    let n = *rng.pick(&[0usize, 1, 1, 1, 1, 2, 3, 5]);
    (0..n).map(|_| gen_obs(rng)).collect()
}

fn gen_flags(rng: &mut Rng) -> GFlags {
    *rng.pick(&[GFlags::None, GFlags::None, GFlags::HighRes, GFlags::NoMetric])
}

fn gen_key_dims(rng: &mut Rng) -> Vec<(String, String)> {
    let n = *rng.pick(&[1usize, 1, 2]);
    distinct_from(rng, KEY_POOL, n).into_iter().map(|k| (k, rng.pick(KEYVAL_POOL).to_string())).collect()
}

struct NameGen {
    next: usize,
    nasty: bool,
}

impl NameGen {
    fn fresh(&mut self, rng: &mut Rng) -> String {
        self.next += 1;
        if self.nasty && rng.chance(1, 2) {
            format!("{}{}", rng.pick(NASTY_STRINGS), self.next)
        } else {
            gen_name(rng, self.next)
        }
    }
}

fn first_split_metric(cfg: &EmfCfg, items: &[GItem]) -> usize {
    items
        .iter()
        .position(|it| matches!(it, GItem::Value(_, GVal::Metric { dims, .. }) if route(cfg, dims).is_some()))
        .unwrap_or(items.len())
}

/// an entry with none of the listed defects (for this configuration)
fn gen_valid_entry(rng: &mut Rng, cfg: &EmfCfg, nasty: bool) -> GenEntry {
    let mut names = NameGen { next: 0, nasty };
    let split = rng.chance(1, 2);
    let entry_dims: Option<Vec<Vec<String>>> = if rng.chance(1, 4) {
        let n = rng.range(1, 2) as usize;
        Some((0..n).map(|_| { let k = rng.range(0, 2) as usize; distinct_from(rng, DIM_POOL, k) }).collect())
    } else {
        None
    };
    let mut declared: Vec<String> = cfg.default_dims.iter().flatten().cloned().collect();
    if let Some(sets) = &entry_dims {
        declared.extend(sets.iter().flatten().cloned());
    }
    declared.sort();
    declared.dedup();
    let mut body: Vec<GItem> = vec![];
    for d in &declared {
        let s = if rng.chance(1, 3) { gen_string(rng) } else { format!("val-{d}") };
        body.push(GItem::Value(d.clone(), GVal::Str(s)));
    }
    for _ in 0..rng.range(0, 3) {
        let n = names.fresh(rng);
        body.push(GItem::Value(n, GVal::Str(gen_string(rng))));
    }
    let n_metrics = *rng.pick(&[0usize, 1, 2, 3, 3, 5, 8]);
    for _ in 0..n_metrics {
        let dims = if (split || cfg.allow_ignored) && rng.chance(1, 2) { gen_key_dims(rng) } else { vec![] };
        // occasionally the same name again in a different record (legal: uniqueness is per record)
        let name = names.fresh(rng);
        body.push(GItem::Value(name, GVal::Metric { obs: gen_obs_list(rng), unit: gen_unit(rng), dims, flags: gen_flags(rng) }));
    }
    if rng.chance(1, 5) {
        let n = names.fresh(rng);
        body.push(GItem::Value(n, GVal::Nothing));
    }
    if rng.chance(1, 8) {
        body.push(GItem::OtherCfg(OtherConfig));
    }
    rng.shuffle(&mut body);
    let limit = first_split_metric(cfg, &body);
    if let Some(sets) = entry_dims {
        let at = rng.range(0, limit as u64) as usize;
        body.insert(at, GItem::entry_dims(sets));
    }
    if split {
        let limit = first_split_metric(cfg, &body);
        let at = if rng.chance(1, 2) { 0 } else { rng.range(0, limit as u64) as usize };
        body.insert(at, GItem::allow_split());
    }
    if !rng.chance(1, 20) {
        let at = rng.range(0, body.len() as u64) as usize;
        let t = match rng.below(8) {
            0 => -(rng.below(5_000_000) as i64),
            1 => rng.below(2000) as i64,
            2 => 999,
            _ => rng.below(2_000_000_000_000_000) as i64,
        };
        body.insert(at, GItem::Timestamp(t));
    }
    if rng.chance(1, 40) {
        let at = rng.range(0, body.len() as u64) as usize;
        body.insert(at, GItem::unroutable("bad thing".into()));
    }
    GenEntry { items: body, sample_group: vec![] }
}

fn random_pos(rng: &mut Rng, e: &GenEntry) -> usize {
    rng.range(0, e.items.len() as u64) as usize
}

fn written_names(e: &GenEntry) -> Vec<(usize, String)> {
    e.items
        .iter()
        .enumerate()
        .filter_map(|(i, it)| match it {
            GItem::Value(n, GVal::Str(_) | GVal::Metric { .. }) => Some((i, n.clone())),
            _ => None,
        })
        .collect()
}

fn small_metric(rng: &mut Rng, dims: Vec<(String, String)>) -> GVal {
    GVal::Metric { obs: gen_obs_list(rng), unit: gen_unit(rng), dims, flags: gen_flags(rng) }
}

/// Injects one defect (or a near miss) of the given kind; returns its label.
fn inject(rng: &mut Rng, cfg: &EmfCfg, e: &mut GenEntry, kind: u64) -> &'static str {
    let declared: Vec<String> = {
        let mut d: Vec<String> = cfg.default_dims.iter().flatten().cloned().collect();
        for s in cd_items(e) {
            d.extend(s.iter().flatten().cloned());
        }
        d
    };
    let has_split = e.items.iter().any(|it| matches!(it, GItem::AllowSplit(_)));
    match kind {
        0 => {
            let w = written_names(e);
            if w.is_empty() {
                return inject(rng, cfg, e, 3);
            }
            let (_, n) = rng.pick(&w).clone();
            let at = random_pos(rng, e);
            e.items.insert(at, GItem::Value(n, GVal::Str("dup".into())));
            "dup-string"
        }
        1 => {
            // a second metric under the name of an existing metric, same record (dimensions permuted)
            let ms: Vec<(String, Vec<(String, String)>)> = e
                .items
                .iter()
                .filter_map(|it| match it {
                    GItem::Value(n, GVal::Metric { dims, .. }) => Some((n.clone(), dims.clone())),
                    _ => None,
                })
                .collect();
            if ms.is_empty() {
                return inject(rng, cfg, e, 0);
            }
            let (n, mut dims) = rng.pick(&ms).clone();
            dims.reverse();
            let at = random_pos(rng, e);
            let v = if rng.chance(1, 3) { GVal::Metric { obs: vec![], unit: Unit::None, dims, flags: GFlags::None } } else { small_metric(rng, dims) };
            e.items.insert(at, GItem::Value(n, v));
            "dup-metric-same-record"
        }
        2 => {
            // near miss: the same metric name in a different record (a defect only when dimensions are ignored)
            let ms: Vec<String> = e
                .items
                .iter()
                .filter_map(|it| match it {
                    GItem::Value(n, GVal::Metric { .. }) => Some(n.clone()),
                    _ => None,
                })
                .collect();
            if ms.is_empty() || !(has_split || cfg.allow_ignored) {
                return inject(rng, cfg, e, 1);
            }
            let n = rng.pick(&ms).clone();
            let dims = vec![("Other".to_string(), format!("o{}", rng.below(3)))];
            let v = small_metric(rng, dims);
            e.items.push(GItem::Value(n, v));
            "same-name-other-record"
        }
        3 => {
            let at = random_pos(rng, e);
            e.items.insert(at, GItem::Timestamp(rng.below(1_000_000_000) as i64));
            "second-timestamp"
        }
        4 | 5 => {
            let name = if kind == 4 { "" } else { "_aws" };
            let v = match rng.below(3) {
                0 => GVal::Str("x".into()),
                1 => small_metric(rng, vec![]),
                _ => GVal::Nothing,
            };
            let at = random_pos(rng, e);
            e.items.insert(at, GItem::Value(name.into(), v));
            if kind == 4 { "empty-name" } else { "reserved-name" }
        }
        6 => {
            if declared.is_empty() {
                return inject(rng, cfg, e, 5);
            }
            let d = rng.pick(&declared).clone();
            let v = small_metric(rng, vec![]);
            if rng.chance(1, 2) {
                // replace the string by a metric
                if let Some(i) = e.items.iter().position(|it| matches!(it, GItem::Value(n, GVal::Str(_)) if *n == d)) {
                    e.items[i] = GItem::Value(d, v);
                    return "metric-replaces-dimension";
                }
            }
            let at = random_pos(rng, e);
            e.items.insert(at, GItem::Value(d, v));
            "metric-under-dimension"
        }
        7 => {
            if declared.is_empty() {
                return inject(rng, cfg, e, 4);
            }
            let d = rng.pick(&declared).clone();
            match rng.below(3) {
                0 => e.items.retain(|it| !matches!(it, GItem::Value(n, GVal::Str(_)) if *n == d)),
                1 => {
                    for it in e.items.iter_mut() {
                        if matches!(it, GItem::Value(n, GVal::Str(_)) if *n == d) {
                            *it = GItem::Value(d.clone(), GVal::Nothing);
                        }
                    }
                }
                _ => {
                    // the dimension's string is written under a slightly different name
                    for it in e.items.iter_mut() {
                        if matches!(it, GItem::Value(n, GVal::Str(_)) if *n == d) {
                            *it = GItem::Value(format!("{d} "), GVal::Str("v".into()));
                        }
                    }
                }
            }
            "missing-dimension"
        }
        8 => {
            // per-metric dimensions without split: drop the config, or a dimensioned metric before it
            let n = format!("Early{}", rng.below(1000));
            if has_split && rng.chance(1, 2) {
                e.items.retain(|it| !matches!(it, GItem::AllowSplit(_)));
                if first_split_metric(cfg, &e.items) == e.items.len() {
                    let kd = gen_key_dims(rng);
                let v = small_metric(rng, kd);
                    e.items.push(GItem::Value(n, v));
                }
                "split-config-removed"
            } else {
                let at = e.items.iter().position(|it| matches!(it, GItem::AllowSplit(_))).unwrap_or(e.items.len());
                let at = rng.range(0, at as u64) as usize;
                let kd = gen_key_dims(rng);
                let v = small_metric(rng, kd);
                e.items.insert(at, GItem::Value(n, v));
                "dimensions-before-split-config"
            }
        }
        9 => {
            let at = random_pos(rng, e);
            e.items.insert(at, GItem::entry_dims(vec![]));
            "entry-dimensions-empty"
        }
        10 => {
            let sets = cd_items(e).first().map(|s| (*s).clone()).unwrap_or_else(|| vec![vec![]]);
            if cd_items(e).is_empty() {
                let at = rng.range(0, first_split_metric(cfg, &e.items) as u64) as usize;
                e.items.insert(at, GItem::entry_dims(sets.clone()));
            }
            let at = random_pos(rng, e);
            e.items.insert(at, GItem::entry_dims(sets));
            "entry-dimensions-repeated"
        }
        11 => {
            // late: after a metric that went to a split record
            let sets = match e.items.iter().position(|it| matches!(it, GItem::EntryDims(..))) {
                Some(i) => {
                    if let GItem::EntryDims(s, _) = e.items.remove(i) { s } else { unreachable!() }
                }
                None => vec![vec![]],
            };
            if !has_split {
                e.items.insert(0, GItem::allow_split());
            }
            if first_split_metric(cfg, &e.items) == e.items.len() {
                let n = format!("Split{}", rng.below(1000));
                let at = random_pos(rng, e).max(1);
                let kd = gen_key_dims(rng);
                let v = small_metric(rng, kd);
                e.items.insert(at.min(e.items.len()), GItem::Value(n, v));
            }
            let first = first_split_metric(cfg, &e.items);
            let at = rng.range((first + 1).min(e.items.len()) as u64, e.items.len() as u64) as usize;
            e.items.insert(at, GItem::entry_dims(sets));
            "entry-dimensions-late"
        }
        12 => {
            let at = random_pos(rng, e);
            let n = if !declared.is_empty() && rng.chance(1, 3) { rng.pick(&declared).clone() } else { format!("Err{}", rng.below(1000)) };
            e.items.insert(at, GItem::Value(n, GVal::Error(rng.pick(&["boom", "NaN value", "dup, field"]).to_string())));
            "value-error"
        }
        _ => {
            // a per-metric dimension key that collides with another member of the split record
            let strings: Vec<String> = e
                .items
                .iter()
                .filter_map(|it| match it {
                    GItem::Value(n, GVal::Str(_)) => Some(n.clone()),
                    _ => None,
                })
                .collect();
            if !has_split {
                e.items.insert(0, GItem::allow_split());
            }
            let n = format!("Keyed{}", rng.below(1000));
            let key = match rng.below(4) {
                0 if !strings.is_empty() => rng.pick(&strings).clone(),
                1 => n.clone(),
                2 if !declared.is_empty() => rng.pick(&declared).clone(),
                _ => "Twice".to_string(),
            };
            let mut dims = vec![(key.clone(), "kv".to_string())];
            if key == "Twice" {
                dims.push((key, "kw".to_string()));
            }
            let at = rng.range(1, e.items.len() as u64) as usize;
            let v = GVal::Metric { obs: vec![Observation::Unsigned(rng.below(100))], unit: Unit::None, dims, flags: GFlags::None };
            e.items.insert(at, GItem::Value(n, v));
            "dimension-key-collision"
        }
    }
}

const N_INJECT: u64 = 14;

/// Cases come in runs of one formatter configuration (so that the long-lived instance of that
/// configuration sees rejected, split, entry-dimension and plain entries one after another).
#[derive(Default)]
struct RunState {
    cfg: Option<EmfCfg>,
    left: usize,
    /// the previous entry of the run before any defect was injected
    prev: Option<GenEntry>,
}

/// a variant of the previous (valid) entry: the same names, entry dimensions regrouped / added / dropped
fn vary_entry(rng: &mut Rng, cfg: &EmfCfg, prev: &GenEntry) -> GenEntry {
    let mut e = prev.clone();
    let pos = e.items.iter().position(|it| matches!(it, GItem::EntryDims(..)));
    match pos {
        Some(i) => {
            let flat: Vec<String> = match &e.items[i] {
                GItem::EntryDims(sets, _) => sets.iter().flatten().cloned().collect(),
                _ => vec![],
            };
            let sets: Vec<Vec<String>> = match rng.below(5) {
                0 => vec![flat.clone()],
                1 if !flat.is_empty() => flat.iter().map(|d| vec![d.clone()]).collect(),
                2 => vec![flat.clone(), vec![]],
                3 => vec![vec![], flat.clone()],
                _ => {
                    let cut = rng.range(0, flat.len() as u64) as usize;
                    vec![flat[..cut].to_vec(), flat[cut..].to_vec()]
                }
            };
            e.items[i] = GItem::entry_dims(sets);
        }
        None => {
            // the identity entry-dimension config (one empty set) before anything else
            let _ = cfg;
            e.items.insert(0, GItem::entry_dims(vec![vec![]]));
        }
    }
    e
}

fn gen_case(rng: &mut Rng, property: &str, rep: &mut Report, run: &mut RunState) -> Case {
    let c08 = property == "C08";
    if run.left == 0 || run.cfg.is_none() {
        run.cfg = Some(gen_cfg(rng, c08));
        run.left = *rng.pick(&[1usize, 1, 2, 3, 4, 6, 8]);
        run.prev = None;
    }
    run.left -= 1;
    let cfg = run.cfg.clone().unwrap();
    let nasty = rng.chance(1, 5);
    let mut entry = match &run.prev {
        Some(p) if rng.chance(1, 4) => {
            rep.bump("run:variant-of-previous");
            if rng.chance(1, 3) { p.clone() } else { vary_entry(rng, &cfg, p) }
        }
        _ => gen_valid_entry(rng, &cfg, nasty),
    };
    run.prev = Some(entry.clone());
    let roll = rng.below(100);
    let n_defects = if c08 {
        if roll < 35 { 0 } else if roll < 80 { 1 } else { 2 }
    } else if roll < 85 {
        0
    } else {
        1
    };
    for _ in 0..n_defects {
        let kind = rng.below(N_INJECT);
        let label = inject(rng, &cfg, &mut entry, kind);
        rep.bump(&format!("injected:{label}"));
    }
    if n_defects == 0 {
        rep.bump("injected:none");
    }
    Case::new(cfg, entry)
}

// ------------------------------------------------------------------------------------------------
// boundary streams: sizes around every boundary an index / length / capacity representation could have
// (bit sets and masks, inline small vectors, hash-map growth, buffer capacities), with each defect injected
// at the FIRST, the LAST and a random position.

const BOUNDS: &[usize] = &[1, 2, 3, 4, 7, 8, 9, 15, 16, 17, 31, 32, 33, 63, 64, 65, 127, 128, 129, 255, 256, 257];
const LEN_BOUNDS: &[usize] = &[1, 2, 7, 8, 15, 16, 17, 22, 23, 24, 31, 32, 33, 63, 64, 65, 127, 128, 129, 255, 256, 257, 1023, 1024, 1025, 4095, 4096, 4097];

#[derive(Clone, Copy, Debug, PartialEq)]
enum Pos {
    First,
    Last,
    Random,
}

fn pick_index(rng: &mut Rng, pos: Pos, n: usize) -> usize {
    match pos {
        Pos::First => 0,
        Pos::Last => n - 1,
        Pos::Random => rng.below(n as u64) as usize,
    }
}

fn plain_cfg(rng: &mut Rng, default_dims: Vec<Vec<String>>) -> EmfCfg {
    EmfCfg {
        how: *rng.pick(&['A', 'A', 'B', 'F']),
        namespaces: vec!["Ns".into()],
        default_dims,
        log_group: None,
        allow_ignored: false,
        extra_directive: false,
        multiplicity: if rng.chance(1, 4) { Some(4) } else { None },
    }
}

fn one_obs(rng: &mut Rng) -> GVal {
    GVal::Metric { obs: vec![Observation::Unsigned(rng.below(1000))], unit: Unit::None, dims: vec![], flags: GFlags::None }
}

fn metric_with(rng: &mut Rng, dims: Vec<(String, String)>) -> GVal {
    GVal::Metric { obs: vec![Observation::Unsigned(rng.below(1000))], unit: Unit::None, dims, flags: GFlags::None }
}

/// `k` distinct per-metric dimension sets in one split entry; defect `d` at set index `j`
fn stream_sets(rng: &mut Rng, k: usize, pos: Pos, d: u64) -> (Case, String) {
    let dd = if rng.chance(1, 3) { vec![vec!["AZ".to_string()]] } else { vec![vec![]] };
    let cfg = plain_cfg(rng, dd);
    let same_name = rng.chance(1, 2);
    let flavor = rng.below(3);
    let dims_of = |i: usize| -> Vec<(String, String)> {
        match flavor {
            0 => vec![("Dim".to_string(), format!("v{i}"))],
            1 => vec![(format!("K{i}"), "v".to_string())],
            _ => vec![("Dim".to_string(), format!("v{}", i / 7)), ("Zone".to_string(), format!("z{}", i % 7))],
        }
    };
    let name_of = |i: usize| -> String { if same_name { "Latency".to_string() } else { format!("M{i}") } };
    let mut items = vec![GItem::Timestamp(1_700_000_000_000_000), GItem::allow_split()];
    for dset in &cfg.default_dims {
        for dn in dset {
            items.push(GItem::Value(dn.clone(), GVal::Str("az-1".into())));
        }
    }
    items.push(GItem::Value("Op".into(), GVal::Str("Get".into())));
    if rng.chance(1, 2) {
        items.push(GItem::Value("Global".into(), one_obs(rng)));
    }
    let base = items.len();
    for i in 0..k {
        let v = metric_with(rng, dims_of(i));
        items.push(GItem::Value(name_of(i), v));
    }
    let j = pick_index(rng, pos, k);
    let at_end = rng.chance(1, 2);
    let label = match d {
        0 => "valid",
        1 => {
            // the same metric again in set j (at the end of the entry, or right after the first one)
            let v = metric_with(rng, dims_of(j));
            if at_end { items.push(GItem::Value(name_of(j), v)) } else { items.insert(base + j + 1, GItem::Value(name_of(j), v)) }
            "dup-metric-in-set"
        }
        2 => {
            let mut dm = dims_of(j);
            dm.reverse();
            let v = metric_with(rng, dm);
            items.push(GItem::Value(name_of(j), v));
            "dup-metric-in-set-permuted"
        }
        3 => {
            let it = GItem::Value(name_of(j), GVal::Str("s".into()));
            if at_end { items.push(it) } else { items.insert(base, it) }
            "string-vs-metric-name"
        }
        4 => {
            // near miss: the name of set j once more, in a brand-new set
            let v = metric_with(rng, vec![("Fresh".to_string(), "f".to_string())]);
            items.push(GItem::Value(name_of(j), v));
            "same-name-new-set"
        }
        5 => {
            items.insert(base + j + 1, GItem::entry_dims(vec![vec![]]));
            "entry-dimensions-late"
        }
        6 => {
            // the split config only after the metric of set j
            items.remove(1);
            items.insert(base + j, GItem::allow_split());
            "split-config-after-set"
        }
        7 => {
            // a second metric with a distinct name in set j (valid), then that name again in set j
            let v = metric_with(rng, dims_of(j));
            items.push(GItem::Value("Extra".into(), v));
            let v = metric_with(rng, dims_of(j));
            items.push(GItem::Value("Extra".into(), v));
            "dup-second-metric-in-set"
        }
        _ => {
            // the global metric's name again under set j is fine; again globally is a duplicate
            let v = metric_with(rng, dims_of(j));
            items.push(GItem::Value("Global2".into(), v));
            items.push(GItem::Value("Global2".into(), one_obs(rng)));
            items.push(GItem::Value("Global2".into(), one_obs(rng)));
            "dup-global-after-sets"
        }
    };
    (Case::new(cfg, GenEntry { items, sample_group: vec![] }), format!("sets:{label}"))
}

/// `n` values in one entry; defect at value index `j`
fn stream_items(rng: &mut Rng, n: usize, pos: Pos, d: u64) -> (Case, String) {
    let cfg = plain_cfg(rng, vec![vec![]]);
    let mut items = vec![GItem::Timestamp(1)];
    let is_str: Vec<bool> = (0..n).map(|_| rng.chance(1, 2)).collect();
    for i in 0..n {
        let v = if is_str[i] { GVal::Str(format!("s{i}")) } else { one_obs(rng) };
        items.push(GItem::Value(format!("F{i}"), v));
    }
    let j = pick_index(rng, pos, n);
    let at = if rng.chance(1, 2) { items.len() } else { 1 };
    let label = match d {
        0 => "valid",
        1 => {
            items.insert(at, GItem::Value(format!("F{j}"), GVal::Str("again".into())));
            "dup-as-string"
        }
        2 => {
            let v = one_obs(rng);
            items.insert(at, GItem::Value(format!("F{j}"), v));
            "dup-as-metric"
        }
        3 => {
            items.insert(1 + j, GItem::Value(String::new(), GVal::Str("x".into())));
            "empty-name"
        }
        4 => {
            items.insert(1 + j, GItem::Timestamp(2));
            "second-timestamp"
        }
        _ => {
            items.insert(1 + j, GItem::Value("_aws".into(), GVal::Nothing));
            "reserved-name"
        }
    };
    (Case::new(cfg, GenEntry { items, sample_group: vec![] }), format!("items:{label}"))
}

/// per-metric dimension lists of length `n`
fn stream_dims(rng: &mut Rng, n: usize, pos: Pos, d: u64) -> (Case, String) {
    let cfg = plain_cfg(rng, vec![vec![]]);
    let dims: Vec<(String, String)> = (0..n).map(|i| (format!("K{i:03}"), format!("v{i}"))).collect();
    let mut items = vec![GItem::Timestamp(1), GItem::allow_split(), GItem::Value("Op".into(), GVal::Str("Get".into()))];
    let mut shuffled = dims.clone();
    rng.shuffle(&mut shuffled);
    let v = metric_with(rng, shuffled);
    items.push(GItem::Value("M".into(), v));
    let j = pick_index(rng, pos, n);
    let label = match d {
        0 => "valid",
        1 => {
            // the same set (given in another order): duplicate
            let mut dm = dims.clone();
            dm.reverse();
            let v = metric_with(rng, dm);
            items.push(GItem::Value("M".into(), v));
            "dup-metric-same-set-other-order"
        }
        2 => {
            // differs only in the value of dimension j: another set, valid
            let mut dm = dims.clone();
            dm[j].1.push('x');
            let v = metric_with(rng, dm);
            items.push(GItem::Value("M".into(), v));
            "near-miss-one-value-differs"
        }
        3 => {
            // differs only in the key of dimension j: another set, valid
            let mut dm = dims.clone();
            dm[j].0.push('x');
            let v = metric_with(rng, dm);
            items.push(GItem::Value("M".into(), v));
            "near-miss-one-key-differs"
        }
        _ => {
            // a prefix of the dimension list: another set, valid; then the full set again: duplicate
            let v = metric_with(rng, dims[..n - 1].to_vec());
            if n > 1 {
                items.push(GItem::Value("M".into(), v));
            }
            let v = metric_with(rng, dims.clone());
            items.push(GItem::Value("M".into(), v));
            "prefix-set-then-dup"
        }
    };
    (Case::new(cfg, GenEntry { items, sample_group: vec![] }), format!("dims:{label}"))
}

/// names of `len` bytes that share all but one byte
fn stream_namelen(rng: &mut Rng, len: usize, pos: Pos, d: u64) -> (Case, String) {
    let mk = |j: usize, c: char| -> String { (0..len).map(|i| if i == j { c } else { 'a' }).collect() };
    let j = pick_index(rng, pos, len);
    let declared = d >= 4;
    let cfg = plain_cfg(rng, if declared { vec![vec![mk(j, 'x')]] } else { vec![vec![]] });
    let mut items = vec![GItem::Timestamp(1)];
    let label = match d {
        0 => {
            items.push(GItem::Value(mk(j, 'x'), GVal::Str("1".into())));
            items.push(GItem::Value(mk(j, 'y'), one_obs(rng)));
            "valid-differ-in-one-byte"
        }
        1 => {
            items.push(GItem::Value(mk(j, 'x'), GVal::Str("1".into())));
            items.push(GItem::Value(mk(j, 'x'), GVal::Str("2".into())));
            "dup-string"
        }
        2 => {
            items.push(GItem::Value(mk(j, 'x'), one_obs(rng)));
            items.push(GItem::Value(mk(j, 'y'), one_obs(rng)));
            items.push(GItem::Value(mk(j, 'x'), one_obs(rng)));
            "dup-metric"
        }
        3 => {
            items.push(GItem::Value(mk(j, 'x'), one_obs(rng)));
            items.push(GItem::Value(mk(j, 'x'), GVal::Str("2".into())));
            "metric-then-string"
        }
        4 => {
            items.push(GItem::Value(mk(j, 'x'), GVal::Str("dim".into())));
            items.push(GItem::Value("M".into(), one_obs(rng)));
            "valid-long-dimension"
        }
        5 => {
            items.push(GItem::Value(mk(j, 'y'), GVal::Str("dim".into())));
            "missing-dimension-one-byte-off"
        }
        _ => {
            items.push(GItem::Value(mk(j, 'x'), GVal::Str("dim".into())));
            items.push(GItem::Value(mk(j, 'x'), one_obs(rng)));
            "metric-under-long-dimension"
        }
    };
    (Case::new(cfg, GenEntry { items, sample_group: vec![] }), format!("namelen:{label}"))
}

/// `n` declared dimensions (default sets and entry sets); defect at dimension `j`
fn stream_declared(rng: &mut Rng, n: usize, pos: Pos, d: u64) -> (Case, String) {
    let names: Vec<String> = (0..n).map(|i| format!("D{i}")).collect();
    let shape = rng.below(3);
    let (default_dims, entry_dims): (Vec<Vec<String>>, Option<Vec<Vec<String>>>) = match shape {
        0 => (vec![names.clone()], None),
        1 => (names.iter().map(|x| vec![x.clone()]).collect(), None),
        _ => (vec![vec![]], Some(names.chunks(3).map(|c| c.to_vec()).collect())),
    };
    let mut cfg = plain_cfg(rng, default_dims);
    if n > 40 && shape == 1 {
        cfg.multiplicity = None;
    }
    let mut items = vec![GItem::Timestamp(1)];
    if let Some(s) = entry_dims {
        items.push(GItem::entry_dims(s));
    }
    for x in &names {
        items.push(GItem::Value(x.clone(), GVal::Str("v".into())));
    }
    items.push(GItem::Value("M".into(), one_obs(rng)));
    let j = pick_index(rng, pos, n);
    let label = match d {
        0 => "valid",
        1 => {
            items.retain(|it| !matches!(it, GItem::Value(x, GVal::Str(_)) if *x == names[j]));
            "missing-dimension"
        }
        2 => {
            items.push(GItem::Value(names[j].clone(), one_obs(rng)));
            "metric-under-dimension"
        }
        3 => {
            for it in items.iter_mut() {
                if matches!(it, GItem::Value(x, GVal::Str(_)) if *x == names[j]) {
                    *it = GItem::Value(names[j].clone(), one_obs(rng));
                }
            }
            "metric-replaces-dimension"
        }
        _ => {
            items.push(GItem::Value(names[j].clone(), GVal::Str("again".into())));
            "dup-dimension-string"
        }
    };
    (Case::new(cfg, GenEntry { items, sample_group: vec![] }), format!("declared:{label}"))
}

/// `n` namespaces (directive replication), with a split record, an extra directive and a log group
fn stream_namespaces(rng: &mut Rng, n: usize, _pos: Pos, d: u64) -> (Case, String) {
    let cfg = EmfCfg {
        how: *rng.pick(&['B', 'F', 'S']),
        namespaces: (0..n).map(|i| format!("Ns{i}")).collect(),
        default_dims: vec![vec!["AZ".into()], vec![]],
        log_group: if rng.chance(1, 2) { Some("Group".into()) } else { None },
        allow_ignored: false,
        extra_directive: rng.chance(1, 2),
        multiplicity: if rng.chance(1, 3) { Some(2) } else { None },
    };
    let mut items = vec![
        GItem::Timestamp(1_234_567),
        GItem::allow_split(),
        GItem::Value("AZ".into(), GVal::Str("az".into())),
        GItem::Value("G".into(), GVal::Metric { obs: gen_obs_list(rng), unit: gen_unit(rng), dims: vec![], flags: gen_flags(rng) }),
        GItem::Value("S".into(), GVal::Metric { obs: gen_obs_list(rng), unit: gen_unit(rng), dims: vec![("Dim".into(), "v".into())], flags: gen_flags(rng) }),
    ];
    let label = match d {
        0 | 1 => "valid",
        2 => {
            items.push(GItem::Value("S".into(), metric_with(rng, vec![("Dim".into(), "v".into())])));
            "dup-metric-in-set"
        }
        _ => {
            items.push(GItem::Value("G".into(), GVal::Str("x".into())));
            "string-vs-metric-name"
        }
    };
    (Case::new(cfg, GenEntry { items, sample_group: vec![] }), format!("namespaces:{label}"))
}

/// the boundary cases of a run: (case, stream label, size)
fn boundary_cases(rng: &mut Rng, property: &str, thorough: bool) -> Vec<(Case, String, usize)> {
    type Stream = fn(&mut Rng, usize, Pos, u64) -> (Case, String);
    // (generator, number of defect kinds, sizes, extra random sizes up to, how many random sizes)
    let streams: Vec<(Stream, u64, Vec<usize>, usize, usize)> = vec![
        (stream_sets, 9, BOUNDS.to_vec(), 600, 3),
        (stream_items, 6, BOUNDS.to_vec(), 1500, 2),
        (stream_dims, 5, BOUNDS[..16].to_vec(), 80, 1),
        (stream_namelen, 7, LEN_BOUNDS.to_vec(), 3000, 1),
        (stream_declared, 5, BOUNDS[..19].to_vec(), 200, 1),
        (stream_namespaces, 4, BOUNDS[..13].to_vec(), 40, 1),
    ];
    let c08 = property == "C08";
    let mut out = vec![];
    for (sgen, kinds, mut sizes, upto, n_random) in streams {
        for _ in 0..(if thorough { 4 * n_random } else { n_random }) {
            sizes.push(rng.range(1, upto as u64) as usize);
        }
        for size in sizes {
            for pos in [Pos::First, Pos::Last, Pos::Random] {
                // quick: per (size, position) the stream's plain duplicate, one more defect kind and one random kind (C08) /
                // mostly valid entries (C03); thorough: every kind
                let ds: Vec<u64> = if thorough && c08 {
                    (0..kinds).collect()
                } else if c08 {
                    // kind 1 of every stream is its plain duplicate: always present
                    vec![1, 1 + rng.below(kinds - 1), rng.below(kinds)]
                } else if pos == Pos::First {
                    vec![0]
                } else {
                    vec![rng.below(kinds)]
                };
                for d in ds {
                    let (case, label) = sgen(rng, size, pos, d);
                    out.push((case, label, size));
                }
            }
        }
    }
    out
}

// ------------------------------------------------------------------------------------------------
// evaluation of one case: oracles + request for the model

struct Evaluated {
    enc: String,
    request: String,
    canon: ImplCanon,
    /// when the long-lived instance produced something else than the fresh formatter:
    /// (the case with its history, what the instance produced)
    hist: Option<(String, ImplCanon)>,
}

/// One long-lived real formatter per configuration. An instance is replaced after
/// `INSTANCE_LIFETIME` entries so that its whole history is known (and replayable).
const INSTANCE_LIFETIME: usize = 16;
const MAX_INSTANCES: usize = 256;

struct Instance {
    fmt: BuiltFmt,
    history: Vec<GenEntry>,
}

#[derive(Default)]
struct Instances {
    map: std::collections::HashMap<String, Instance>,
}

fn same_output(a: (&Outcome, &[u8]), b: (&Outcome, &[u8]), clock: bool) -> bool {
    if a.0 != b.0 {
        return false;
    }
    if clock { sorted_lines(&mask_timestamp(a.1)) == sorted_lines(&mask_timestamp(b.1)) } else { sorted_lines(a.1) == sorted_lines(b.1) }
}

/// Formats the case's entry a second time, through the long-lived instance of its configuration.
/// Returns the case with the instance's history and the run when it differs from the fresh run.
fn run_long_lived(c: &Case, fresh: &ImplRun, insts: &mut Instances, rep: &mut Report) -> Option<(Case, ImplRun)> {
    if !c.history.is_empty() {
        return None; // a replayed history case: `run_impl` already went through the history
    }
    let key = c.cfg.encode();
    if !insts.map.contains_key(&key) {
        if insts.map.len() >= MAX_INSTANCES {
            insts.map.clear();
        }
        insts.map.insert(key.clone(), Instance { fmt: c.cfg.build_fmt()?, history: vec![] });
    }
    let inst = insts.map.get_mut(&key)?;
    let (o, b) = run_on(&mut inst.fmt, &c.entry);
    rep.bump(&format!("long-lived:history-length:{}", match inst.history.len() { 0 => "0", 1 => "1", 2..=4 => "2-4", _ => "5+" }));
    let clock = !c.entry.items.iter().any(|it| matches!(it, GItem::Timestamp(_)));
    let res = if same_output((&fresh.outcome, &fresh.bytes), (&o, &b), clock) {
        None
    } else {
        rep.bump("long-lived:differs-from-fresh");
        Some((Case { history: inst.history.clone(), ..c.clone() }, parse_run(o, b)))
    };
    inst.history.push(c.entry.clone());
    if inst.history.len() >= INSTANCE_LIFETIME {
        insts.map.remove(&key);
    }
    res
}

fn oracle_failure_key(c: &Case, property: &str) -> Option<(String, String, String)> {
    let run = run_impl(c);
    if property == "C08" {
        c08_oracle(c, &run).map(|(k, w)| (k.to_string(), w, run.outcome.render()))
    } else {
        if c03_domain(c).is_some() {
            return None;
        }
        c03_oracle(c, &run).map(|w| ("emf:content".to_string(), w, format!("{} {}", run.outcome.render(), String::from_utf8_lossy(&run.bytes))))
    }
}

fn shrink_case(c: &Case, property: &str, key: &str) -> Case {
    let fails = |cc: &Case| oracle_failure_key(cc, property).map(|(k, _, _)| k == key).unwrap_or(false);
    // the history first: fewer earlier entries, then fewer items in each of them
    let history = shrink_list(&c.history, |h| fails(&Case { history: h.to_vec(), ..c.clone() }));
    let mut cur = Case { history, ..c.clone() };
    for i in 0..cur.history.len() {
        let items = shrink_list(&cur.history[i].items, |items| {
            let mut cand = cur.clone();
            cand.history[i].items = items.to_vec();
            fails(&cand)
        });
        cur.history[i].items = items;
    }
    let items = shrink_list(&cur.entry.items, |items| {
        fails(&Case { entry: GenEntry { items: items.to_vec(), sample_group: vec![] }, ..cur.clone() })
    });
    cur.entry.items = items;
    // simplify the configuration while the failure persists
    let mut tries: Vec<Box<dyn Fn(&mut EmfCfg)>> = vec![
        Box::new(|c| c.namespaces.truncate(1)),
        Box::new(|c| c.log_group = None),
        Box::new(|c| c.extra_directive = false),
        Box::new(|c| c.multiplicity = None),
        Box::new(|c| c.allow_ignored = false),
        Box::new(|c| c.default_dims = vec![vec![]]),
        Box::new(|c| c.namespaces = vec!["Ns".into()]),
    ];
    for t in tries.drain(..) {
        let mut cand = cur.clone();
        t(&mut cand.cfg);
        if cand.cfg != cur.cfg && fails(&cand) {
            cur = cand;
        }
    }
    // items again: a simpler configuration may have made more of them removable
    let items = shrink_list(&cur.entry.items, |items| {
        fails(&Case { entry: GenEntry { items: items.to_vec(), sample_group: vec![] }, ..cur.clone() })
    });
    cur.entry.items = items;
    // simplify values: metrics to a single small observation, strings to "s"
    for i in 0..cur.entry.items.len() {
        let mut cand = cur.clone();
        match &mut cand.entry.items[i] {
            GItem::Value(_, GVal::Metric { obs, unit, flags, .. }) => {
                *obs = vec![Observation::Unsigned(1)];
                *unit = Unit::None;
                *flags = GFlags::None;
            }
            GItem::Value(_, GVal::Str(s)) => *s = "s".into(),
            GItem::Timestamp(t) => *t = 0,
            _ => continue,
        }
        if fails(&cand) {
            cur = cand;
        }
    }
    cur
}

fn evaluate(c: &Case, property: &str, rep: &mut Report, sample: bool, insts: &mut Instances) -> Evaluated {
    let enc = c.encode();
    let run = run_impl(c);
    let d = defects(&c.cfg, &c.entry);
    let validates = c.cfg.validates();
    // distribution
    rep.bump(&format!("how:{}{}", c.cfg.how, if validates { "(validates)" } else { "(skips)" }));
    rep.bump(&format!("result:{}", run.outcome.class()));
    rep.bump(&format!("namespaces:{}", c.cfg.namespaces.len()));
    rep.bump(&format!("multiplicity:{}", match c.cfg.multiplicity { None => "none".to_string(), Some(m) if m == u64::MAX => "max".into(), Some(1) => "1".into(), Some(_) => "n".into() }));
    if c.cfg.allow_ignored {
        rep.bump("mode:ignored-dimensions");
    }
    if c.entry.items.iter().any(|it| matches!(it, GItem::AllowSplit(_))) {
        rep.bump("mode:split");
    }
    if !cd_items(&c.entry).is_empty() {
        rep.bump("mode:entry-dimensions");
    }
    for k in &d {
        rep.bump(&format!("defect:{k}"));
    }
    if d.is_empty() {
        rep.bump("defect:none");
    }
    if let Outcome::Validation(kinds) = &run.outcome {
        for k in kinds {
            rep.bump(&format!("error-kind:{}", k.split(':').next().unwrap()));
        }
    }
    if let Ok(rs) = &run.records {
        if run.outcome == Outcome::Ok {
            rep.bump(&format!("records:{}", rs.len().min(4)));
            let members: usize = rs.iter().map(|r| r.members.len()).sum();
            rep.bump_by("members written", members as u64);
            for r in rs {
                for (_, v) in &r.members {
                    rep.bump(match v {
                        IVal::Str(_) => "member:string",
                        IVal::Num(_) => "member:scalar",
                        IVal::Hist(..) => "member:values-counts",
                    });
                }
            }
        }
    }
    rep.bump(&format!("items:{}", match c.entry.items.len() { 0 => "0", 1..=3 => "1-3", 4..=8 => "4-8", _ => "9+" }));

    // oracle
    let nontrivial;
    if property == "C08" {
        nontrivial = validates && (!d.is_empty() || run.outcome == Outcome::Ok);
        if let Some((key, what)) = c08_oracle(c, &run) {
            rep.bump(&format!("oracle-failure:{key}"));
            // shrink and record the first few of every class only (shrinking re-runs the implementation many times)
            if rep.oracle_failures.iter().filter(|f| f.key == key).count() >= 3 {
                rep.case(&enc, nontrivial);
                let _ = run_long_lived(c, &run, insts, rep);
                return Evaluated { request: c.request(), enc, canon: impl_canon(&run), hist: None };
            }
            let small = shrink_case(c, property, key);
            let r2 = run_impl(&small);
            let what = c08_oracle(&small, &r2).map(|(_, w)| w).unwrap_or(what);
            rep.oracle_failure(key, &small.encode(), &format!("{} {}", r2.outcome.render(), String::from_utf8_lossy(&r2.bytes)), &what);
        }
    } else {
        match c03_domain(c) {
            Some(why) => {
                rep.bump(&format!("c03-oracle-skipped:{why}"));
                nontrivial = false;
            }
            None => {
                let metrics_out = run.records.as_ref().map(|rs| rs.iter().any(|r| r.members.iter().any(|(_, v)| !matches!(v, IVal::Str(_))))).unwrap_or(false);
                nontrivial = run.outcome == Outcome::Ok && metrics_out;
                if let Some(what) = c03_oracle(c, &run) {
                    let small = shrink_case(c, property, "emf:content");
                    let r2 = run_impl(&small);
                    let what = c03_oracle(&small, &r2).unwrap_or(what);
                    rep.oracle_failure("emf:content", &small.encode(), &format!("{} {}", r2.outcome.render(), String::from_utf8_lossy(&r2.bytes)), &what);
                }
            }
        }
    }
    rep.case(&enc, nontrivial);
    if sample {
        rep.sample(json!({"case": enc, "impl": run.outcome.render(), "output": String::from_utf8_lossy(&run.bytes), "defects": d.iter().collect::<Vec<_>>()}));
    }
    // the same entry through the long-lived instance of this configuration: same oracles, same model prediction
    let mut hist = None;
    if let Some((hc, hrun)) = run_long_lived(c, &run, insts, rep) {
        let fresh_key: Option<String> = if property == "C08" {
            c08_oracle(c, &run).map(|(k, _)| k.to_string())
        } else if c03_domain(c).is_none() {
            c03_oracle(c, &run).map(|_| "emf:content".to_string())
        } else {
            None
        };
        let hist_fail: Option<(String, String)> = if property == "C08" {
            c08_oracle(&hc, &hrun).map(|(k, w)| (k.to_string(), w))
        } else if c03_domain(&hc).is_none() {
            c03_oracle(&hc, &hrun).map(|w| ("emf:content".to_string(), w))
        } else {
            None
        };
        if let Some((key, what)) = hist_fail {
            if fresh_key.as_deref() != Some(key.as_str()) {
                let full = format!("{key}:after-history");
                rep.bump(&format!("oracle-failure:{full}"));
                if rep.oracle_failures.iter().filter(|f| f.key == full).count() < 3 {
                    let small = shrink_case(&hc, property, &key);
                    let r2 = run_impl(&small);
                    let what = oracle_failure_key(&small, property).map(|(_, w, _)| w).unwrap_or(what);
                    rep.oracle_failure(
                        &full,
                        &small.encode(),
                        &format!("{} {}", r2.outcome.render(), String::from_utf8_lossy(&r2.bytes)),
                        &format!("only after the same formatter instance formatted the earlier entr{} of the case: {what}", if small.history.len() == 1 { "y" } else { "ies" }),
                    );
                }
            }
        }
        hist = Some((hc.encode(), impl_canon(&hrun)));
    }
    Evaluated { request: c.request(), enc, canon: impl_canon(&run), hist }
}

/// one batch: evaluate, ask the model, compare
fn run_batch(
    cases: &[Case],
    property: &str,
    driver: &Option<String>,
    rep: &mut Report,
    sample_every: usize,
    insts: &mut Instances,
) -> Vec<Case> {
    let evs: Vec<Evaluated> = cases.iter().enumerate().map(|(i, c)| evaluate(c, property, rep, i % sample_every == 0, insts)).collect();
    let requests: Vec<String> = evs.iter().map(|e| e.request.clone()).collect();
    let mut disagreeing = vec![];
    match run_driver(driver, "emfspec", &requests) {
        Some(replies) => {
            for ((ev, reply), c) in evs.iter().zip(&replies).zip(cases) {
                let comp = |canon: &ImplCanon| if reply.starts_with("err") || matches!(canon, ImplCanon::Other(_)) { "emfspec/validate" } else { "emfspec/records" };
                if let Some(model) = compare(&ev.canon, reply) {
                    rep.disagreement(comp(&ev.canon), &ev.enc, &render_impl_canon(&ev.canon), &model);
                    disagreeing.push(c.clone());
                }
                if let Some((henc, hcanon)) = &ev.hist {
                    if let Some(model) = compare(hcanon, reply) {
                        rep.disagreement(&format!("{}:after-history", comp(hcanon)), henc, &render_impl_canon(hcanon), &model);
                        if let Some(hc) = Case::decode(henc) {
                            disagreeing.push(hc);
                        }
                    }
                }
            }
            rep.bump_by("model requests", requests.len() as u64);
        }
        None => rep.driver_available = false,
    }
    disagreeing
}

fn mutate(rng: &mut Rng, c: &Case) -> Case {
    let mut m = c.clone();
    let n = m.entry.items.len();
    match rng.below(7) {
        0 if n > 0 => {
            m.entry.items.remove(rng.below(n as u64) as usize);
        }
        1 if n > 0 => {
            let it = m.entry.items[rng.below(n as u64) as usize].clone();
            let at = rng.range(0, n as u64) as usize;
            m.entry.items.insert(at, it);
        }
        2 if n > 1 => {
            let (a, b) = (rng.below(n as u64) as usize, rng.below(n as u64) as usize);
            m.entry.items.swap(a, b);
        }
        3 => {
            let trivial = m.cfg.namespaces.len() == 1 && m.cfg.log_group.is_none() && !m.cfg.allow_ignored && !m.cfg.extra_directive;
            m.cfg.how = if trivial { *rng.pick(&['A', 'B', 'N']) } else { *rng.pick(&['B', 'F', 'S']) };
        }
        4 => m.cfg.multiplicity = if rng.chance(1, 2) { None } else { Some(*rng.pick(MULTS)) },
        5 => {
            let k = rng.below(N_INJECT);
            inject(rng, &m.cfg.clone(), &mut m.entry, k);
        }
        _ => {
            let fresh = gen_valid_entry(rng, &m.cfg, false);
            let take = rng.range(0, fresh.items.len() as u64) as usize;
            m.entry.items.extend(fresh.items.into_iter().take(take));
        }
    }
    m
}

fn merge(into: &mut Report, from: Report) {
    into.evaluations += from.evaluations;
    into.nontrivial.extend(from.nontrivial);
    for s in from.samples {
        into.sample(s);
    }
    for (k, v) in from.distribution {
        *into.distribution.entry(k).or_insert(0) += v;
    }
    for f in from.oracle_failures {
        if into.oracle_failures.len() < 50 {
            into.oracle_failures.push(f);
        }
    }
    for d in from.disagreements {
        if into.disagreements.len() < 50 {
            into.disagreements.push(d);
        }
    }
    into.driver_available &= from.driver_available;
    into.search_cases += from.search_cases;
    into.search_found |= from.search_found;
}

fn main() {
    quiet_panics();
    let args = Args::parse();
    let property = if args.property == "C08" { "C08" } else { "C03" };
    let rule = if property == "C08" {
        "case = (formatter configuration incl. how it was built, entry); non-trivial = the formatter validates in this build \
         profile and the entry either carries a listed defect or was accepted (so rejection, no-duplicate and transparency \
         were actually decided); distinct by case text"
    } else {
        "case = (formatter configuration, entry); non-trivial = the entry is inside the documented domain, was accepted and \
         at least one metric member was written (so the content oracle compared numbers); distinct by case text"
    };
    let mut rep = Report::new(&args, "emfspec", rule);
    let mut rng = Rng::new(args.seed);
    rep.notes.push(format!("build profile: debug_assertions={}", cfg!(debug_assertions)));

    if let Some(line) = args.replay_case() {
        let cases: Vec<Case> = Case::decode(&line).into_iter().collect();
        if cases.is_empty() {
            rep.notes.push("replay case did not decode".into());
        }
        run_batch(&cases, property, &args.driver, &mut rep, 1, &mut Instances::default());
        rep.write(&args);
        return;
    }

    let corpus: Vec<Case> = args.corpus_cases().iter().filter_map(|l| Case::decode(l)).collect();
    rep.bump_by("corpus cases", corpus.len() as u64);
    let mut disagreeing = run_batch(&corpus, property, &args.driver, &mut rep, 1, &mut Instances::default());

    let (shards, per_shard, batch) = if args.thorough() { (12u64, 40_000usize, 4_000usize) } else { (3u64, 4_000usize, 2_000usize) };
    // boundary streams (large entries): dealt round-robin to the shards
    let mut brng = rng.fork(0xb0da);
    let boundary = boundary_cases(&mut brng, property, args.thorough());
    let mut dealt: Vec<Vec<Case>> = (0..shards).map(|_| vec![]).collect();
    for (i, (c, label, size)) in boundary.into_iter().enumerate() {
        rep.bump(&format!("boundary:{label}"));
        rep.bump(&format!("boundary-size:{}", match size { 0..=9 => "1-9", 10..=63 => "10-63", 64..=255 => "64-255", _ => "256+" }));
        dealt[i % shards as usize].push(c);
    }
    let forks: Vec<(Rng, Vec<Case>)> = (0..shards).map(|i| rng.fork(i)).zip(dealt).collect();
    let results: Vec<(Report, Vec<Case>)> = std::thread::scope(|s| {
        let handles: Vec<_> = forks
            .into_iter()
            .map(|(mut r, mine)| {
                let args = &args;
                s.spawn(move || {
                    let mut rep = Report::new(args, "emfspec", "");
                    let mut dis = vec![];
                    let mut insts = Instances::default();
                    let mut runstate = RunState::default();
                    for chunk in mine.chunks(100) {
                        dis.extend(run_batch(chunk, property, &args.driver, &mut rep, 97, &mut insts));
                    }
                    let mut done = 0;
                    while done < per_shard {
                        let n = batch.min(per_shard - done);
                        let cases: Vec<Case> = (0..n).map(|_| gen_case(&mut r, property, &mut rep, &mut runstate)).collect();
                        dis.extend(run_batch(&cases, property, &args.driver, &mut rep, 1999, &mut insts));
                        done += n;
                    }
                    (rep, dis)
                })
            })
            .collect();
        handles.into_iter().map(|h| h.join().expect("shard")).collect()
    });
    for (r, d) in results {
        merge(&mut rep, r);
        disagreeing.extend(d);
    }

    // a disagreement without an oracle failure: look for a failing input near the disagreeing cases
    if !disagreeing.is_empty() && rep.oracle_failures.is_empty() {
        let budget = if args.thorough() { 200_000 } else { 40_000 };
        let mut srng = rng.fork(0xfeed);
        'search: for round in 0..budget {
            let base = &disagreeing[round % disagreeing.len().min(8)];
            let mut c = mutate(&mut srng, base);
            if srng.chance(1, 3) {
                c = mutate(&mut srng, &c);
            }
            if c.cfg.build_fmt().is_none() {
                continue;
            }
            rep.search_cases += 1;
            if let Some((key, what, out)) = oracle_failure_key(&c, property) {
                let small = shrink_case(&c, property, &key);
                rep.oracle_failure(&key, &small.encode(), &out, &what);
                rep.search_found = true;
                break 'search;
            }
        }
    }
    rep.write(&args);
}
