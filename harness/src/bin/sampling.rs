//! Engine `sampling` (C12): `FixedFractionSample`, `CongressSample`, `SampledEmf` / `rate_to_n_alpha`.
//!
//! Case lines (`h` = hexadecimal bit pattern):
//!   `na <rate32h>`                      `verif_rate_to_n_alpha(rate)` (rate in [2^-63, 1])
//!   `fx <rate32h> <word32h>`            `FixedFractionSample::format` with that u32 from the RNG
//!   `rc <rate32h> <word64h> <metrics>`  `SampledEmf::format_with_sample_rate`, RNG returns that u64;
//!                                       metrics = `/`-separated lists (`,`-separated, `.` = empty) of
//!                                       `s` Unsigned | `f` Floating | `x` Floating(NaN) | `r<occ>` Repeated | `y<occ>` Repeated with NaN total
//!   `ub <rate32h>`                      measures P(weight = lower) by bisection over the draw (real code) and
//!                                       checks the expectation (oracle only)
//!   `cg <target>/<v>/<ctor> <op>…`      `CongressSample` history with manual interval ends (see `CgCfg`, `CgOp`)
//!   `dr <words> <call>…` / `st <rate32h> <n>`   the default RNG path: `DefaultRng<scripted R>` call by call / statistics over `ThreadRng`
//!   `rt <target>/<v>/<interval_ms> <step>…`  `CongressSample` under its REAL clock (see `RtStep`)
//!
//! Oracles (Rust, exact integer arithmetic, independent of the Lean model) — see `notes/C12.md`.
//! Correspondence: every case is replayed in the Lean model (`driver sampling`) and compared bit for bit;
//! for `cg` the model is given the hash-map iteration order observed through `verif_group_rates`.

use metrique_writer::sample::{CongressSample, CongressSampleBuilder, FixedFractionSample};
use metrique_writer_core::format::Format;
use metrique_writer_core::sample::SampledFormat;
use metrique_writer_core::{Entry, IoStreamError, Observation, Unit};
use metrique_writer_format_emf::{Emf, verif_rate_to_n_alpha};
use std::cell::{Cell, RefCell};
use std::rc::Rc;
use std::time::Duration;
use verif_harness::gen_entry::*;
use verif_harness::*;

// ------------------------------------------------------------------------------------------------
// scripted pieces

#[derive(Clone, Default)]
struct CellRng {
    word: Rc<Cell<u64>>,
    draws: Rc<Cell<u64>>,
}

impl rand::RngCore for CellRng {
    fn next_u32(&mut self) -> u32 {
        (self.next_u64() >> 32) as u32
    }
    fn next_u64(&mut self) -> u64 {
        self.draws.set(self.draws.get() + 1);
        self.word.get()
    }
    fn fill_bytes(&mut self, dst: &mut [u8]) {
        for chunk in dst.chunks_mut(8) {
            let w = self.next_u64().to_le_bytes();
            chunk.copy_from_slice(&w[..chunk.len()]);
        }
    }
}

#[derive(Clone, Default)]
struct Recorder {
    sampled_calls: Rc<RefCell<Vec<f32>>>,
    plain_calls: Rc<Cell<u64>>,
}

impl Format for Recorder {
    fn format(&mut self, _e: &impl Entry, _o: &mut impl std::io::Write) -> Result<(), IoStreamError> {
        self.plain_calls.set(self.plain_calls.get() + 1);
        Ok(())
    }
}

impl SampledFormat for Recorder {
    fn format_with_sample_rate(&mut self, _e: &impl Entry, _o: &mut impl std::io::Write, rate: f32) -> Result<(), IoStreamError> {
        self.sampled_calls.borrow_mut().push(rate);
        Ok(())
    }
}

// ------------------------------------------------------------------------------------------------
// exact arithmetic helpers for the oracles

/// positive finite f32 = m * 2^e
fn dec32(r: f32) -> (u64, i32) {
    let b = r.to_bits();
    let ex = ((b >> 23) & 0xff) as i32;
    let fr = (b & 0x7f_ffff) as u64;
    if ex == 0 { (fr, -149) } else { (fr | 0x80_0000, ex - 150) }
}

/// non-negative finite f64 = m * 2^e
fn dec64(x: f64) -> (u64, i32) {
    let b = x.to_bits();
    let ex = ((b >> 52) & 0x7ff) as i32;
    let fr = b & 0xf_ffff_ffff_ffff;
    if ex == 0 { (fr, -1074) } else { (fr | (1 << 52), ex - 1075) }
}

fn valid_rate(r: f32) -> bool {
    r.is_finite() && r > 0.0 && r <= 1.0
}

/// is 1/r < 2^53 (r in (0,1])
fn recip_below_2_53(r: f32) -> bool {
    let (m, e) = dec32(r);
    let k = -e; // r <= 1 => e < 0
    k < 53 || (k - 53 < 64 && (1u128 << (k - 53)) < m as u128)
}

/// (floor(1/r), ceil(1/r)) for r in (0,1] with 1/r < 2^53
fn recip_floor_ceil(r: f32) -> (u64, u64) {
    let (m, e) = dec32(r);
    let k = (-e) as u32;
    let num = 1u128 << k;
    let fl = num / m as u128;
    let ce = fl + (num % m as u128 != 0) as u128;
    (fl as u64, ce as u64)
}

/// 256-bit unsigned (hi, lo)
type U256 = (u128, u128);

fn mul_wide(a: u128, b: u64) -> U256 {
    let al = a & 0xffff_ffff_ffff_ffff;
    let ah = a >> 64;
    let p0 = al * b as u128;
    let p1 = ah * b as u128;
    let (lo, c) = p0.overflowing_add(p1 << 64);
    ((p1 >> 64) + c as u128, lo)
}

fn pow2_256(e: u32) -> U256 {
    if e < 128 { (0, 1u128 << e) } else { (1u128 << (e - 128), 0) }
}

fn absdiff256(a: U256, b: U256) -> U256 {
    let (big, small) = if a >= b { (a, b) } else { (b, a) };
    let (lo, borrow) = big.1.overflowing_sub(small.1);
    (big.0 - small.0 - borrow as u128, lo)
}

/// is | x2_53 / 2^53 - 1/r | <= 2^-53 / r   (x2_53 = expectation * 2^53, an integer)
fn expectation_ok(r: f32, x2_53: u128) -> bool {
    let (m, e) = dec32(r);
    let k = (-e) as u32;
    let d = absdiff256(mul_wide(x2_53, m), pow2_256(k + 53));
    d <= pow2_256(k)
}

fn draw32(word32: u32) -> u64 {
    (word32 >> 8) as u64
}

/// draw (24-bit numerator over 2^24) <= rate, exactly
fn draw_le_rate(d24: u64, rate: f32) -> bool {
    let (m, e) = dec32(rate);
    let s = e + 24; // compare d24 with m * 2^s
    if s >= 0 {
        (d24 as u128) <= (m as u128) << s
    } else if -s > 64 {
        d24 == 0
    } else {
        ((d24 as u128) << (-s)) <= m as u128
    }
}

// ------------------------------------------------------------------------------------------------
// implementation runners

fn impl_na(rate: f32) -> Result<(u64, f64), String> {
    catch(|| verif_rate_to_n_alpha(rate))
}

fn impl_fx(rate: f32, word32: u32) -> Result<(Vec<f32>, u64, u64), String> {
    catch(|| {
        let rec = Recorder::default();
        let rng = CellRng::default();
        rng.word.set((word32 as u64) << 32);
        let mut s = FixedFractionSample::with_rng(rec.clone(), rate, rng.clone());
        let e = GenEntry { items: vec![], sample_group: vec![] };
        let r = s.format(&e, &mut std::io::sink());
        assert!(r.is_ok(), "format returned an error");
        (rec.sampled_calls.borrow().clone(), rec.plain_calls.get(), rng.draws.get())
    })
}

#[derive(Clone, Debug, PartialEq)]
enum ObsK {
    S,
    F,
    X,
    R(u64),
    Y(u64),
}

fn enc_metrics(ms: &[Vec<ObsK>], model: bool) -> String {
    ms.iter()
        .map(|m| {
            if m.is_empty() {
                ".".to_string()
            } else {
                m.iter()
                    .map(|o| match (o, model) {
                        (ObsK::S, _) | (ObsK::F, true) => "s".to_string(),
                        (ObsK::F, false) => "f".to_string(),
                        (ObsK::Y(0), true) => "r0".to_string(),
                        (ObsK::X, _) | (ObsK::Y(_), true) => "x".to_string(),
                        (ObsK::R(n), _) => format!("r{n}"),
                        (ObsK::Y(n), false) => format!("y{n}"),
                    })
                    .collect::<Vec<_>>()
                    .join(",")
            }
        })
        .collect::<Vec<_>>()
        .join("/")
}

fn dec_metrics(s: &str) -> Option<Vec<Vec<ObsK>>> {
    s.split('/')
        .map(|m| {
            if m == "." {
                return Some(vec![]);
            }
            m.split(',')
                .map(|o| match o {
                    "s" => Some(ObsK::S),
                    "f" => Some(ObsK::F),
                    "x" => Some(ObsK::X),
                    _ if o.starts_with('r') => o[1..].parse().ok().map(ObsK::R),
                    _ if o.starts_with('y') => o[1..].parse().ok().map(ObsK::Y),
                    _ => None,
                })
                .collect()
        })
        .collect()
}

/// formats one entry with metric `W` (one Unsigned observation: its count is the weight) followed by
/// `M0..`; returns (weight, counts per metric) read back from the EMF JSON
fn impl_rc(rate: f32, word: u64, ms: &[Vec<ObsK>]) -> Result<(u64, Vec<Vec<u64>>), String> {
    catch(|| {
        let rng = CellRng::default();
        rng.word.set(word);
        let mut f = Emf::builder("Ns".to_string(), vec![vec![]]).skip_all_validations(true).build().with_sampling_and_rng(rng.clone());
        let mut items = vec![GItem::Timestamp(1_700_000_000_000_000)];
        let mk = |obs: Vec<Observation>| GVal::Metric { obs, unit: Unit::None, dims: vec![], flags: GFlags::None };
        items.push(GItem::Value("W".into(), mk(vec![Observation::Unsigned(1)])));
        for (i, m) in ms.iter().enumerate() {
            let obs = m
                .iter()
                .enumerate()
                .map(|(j, o)| match o {
                    ObsK::S => Observation::Unsigned(j as u64 + 3),
                    ObsK::F => Observation::Floating(j as f64 + 0.5),
                    ObsK::X => Observation::Floating(f64::NAN),
                    ObsK::R(n) => Observation::Repeated { total: 2.5 * (*n as f64), occurrences: *n },
                    ObsK::Y(n) => Observation::Repeated { total: f64::NAN, occurrences: *n },
                })
                .collect();
            items.push(GItem::Value(format!("M{i}"), mk(obs)));
        }
        let e = GenEntry { items, sample_group: vec![] };
        let mut out = vec![];
        let r = f.format_with_sample_rate(&e, &mut out, rate);
        assert!(r.is_ok(), "format_with_sample_rate returned an error");
        let text = String::from_utf8(out).expect("utf8");
        let lines: Vec<&str> = text.lines().collect();
        assert!(lines.len() == 1, "expected one record, got {}", lines.len());
        let j: Json = serde_json::from_str(lines[0]).expect("json");
        let counts = |name: &str| -> Option<Vec<u64>> {
            let v = j.get(name)?;
            let c = v.get("Counts").unwrap_or_else(|| panic!("metric {name} has no Counts array: {v}"));
            let vals = v.get("Values").and_then(|x| x.as_array()).expect("Values");
            let c = c.as_array().expect("Counts array");
            assert!(c.len() == vals.len(), "Values/Counts length mismatch");
            Some(c.iter().map(|x| x.as_u64().expect("count is u64")).collect())
        };
        let w = counts("W").expect("W present");
        assert!(w.len() == 1);
        let per: Vec<Vec<u64>> = (0..ms.len()).map(|i| counts(&format!("M{i}")).unwrap_or_default()).collect();
        (w[0], per)
    })
}

fn impl_weight(rate: f32, draw53: u64) -> Result<u64, String> {
    impl_rc(rate, draw53 << 11, &[]).map(|r| r.0)
}

// ------------------------------------------------------------------------------------------------
// oracles

fn oracle_na(rate: f32, n: u64, alpha: f64) -> Option<String> {
    if !recip_below_2_53(rate) {
        return None; // the property makes no claim between 2^53 and 2^63
    }
    let (fl, ce) = recip_floor_ceil(rate);
    if alpha.is_nan() {
        return Some("alpha is NaN".into());
    }
    // draws are k/2^53, k < 2^53; weight n iff draw < alpha
    let can_n = alpha > 0.0;
    let can_n1 = alpha <= 1.0 - f64::EPSILON / 2.0;
    if can_n && n != fl && n != ce {
        return Some(format!("weight n={n} is neither floor {fl} nor ceil {ce} of 1/rate"));
    }
    if can_n1 && n + 1 != fl && n + 1 != ce {
        return Some(format!("weight n+1={} is neither floor {fl} nor ceil {ce} of 1/rate (alpha={alpha})", n + 1));
    }
    // P(draw < alpha) * 2^53
    let p: u128 = if alpha <= 0.0 {
        0
    } else if alpha >= 1.0 {
        1 << 53
    } else {
        let (ma, ea) = dec64(alpha); // alpha * 2^53 = ma * 2^(ea+53)
        let s = ea + 53;
        if s >= 0 { (ma as u128) << s } else { ((ma as u128) + (1u128 << (-s)) - 1) >> (-s) }
    };
    let x = p * n as u128 + ((1u128 << 53) - p) * (n as u128 + 1);
    if !expectation_ok(rate, x) {
        return Some(format!("expected weight {}*2^-53 differs from 1/rate by more than 2^-53/rate (n={n}, alpha={alpha})", x));
    }
    None
}

fn oracle_weight(rate: f32, w: u64) -> Option<String> {
    let (m, e) = dec32(rate);
    // rate < 2^-63
    let below = e < -63 && (m as u128) < (1u128 << (-63 - e).min(100));
    if below {
        return if w == u64::MAX { None } else { Some(format!("rate below 2^-63 but weight {w} is not u64::MAX")) };
    }
    if recip_below_2_53(rate) {
        let (fl, ce) = recip_floor_ceil(rate);
        if w != fl && w != ce {
            return Some(format!("weight {w} is neither floor {fl} nor ceil {ce} of 1/rate"));
        }
    }
    None
}

fn oracle_rc(rate: f32, ms: &[Vec<ObsK>], w: u64, per: &[Vec<u64>]) -> Option<String> {
    if let Some(e) = oracle_weight(rate, w) {
        return Some(e);
    }
    for (i, m) in ms.iter().enumerate() {
        let want: Vec<u64> = m
            .iter()
            .filter_map(|o| match o {
                ObsK::S | ObsK::F => Some(w),
                ObsK::R(n) => Some(n.saturating_mul(w)),
                ObsK::Y(0) => Some(0), // `occurrences == 0` gives mean 0.0 whatever the total
                ObsK::X | ObsK::Y(_) => None,
            })
            .collect();
        if want != per[i] {
            return Some(format!("metric M{i}: counts {:?}, expected occurrences x weight {w} = {:?}", per[i], want));
        }
    }
    None
}

fn oracle_fx(rate: f32, word32: u32, calls: &[f32], plain: u64) -> Option<String> {
    let want = draw_le_rate(draw32(word32), rate);
    if plain != 0 {
        return Some("the unsampled Format::format of the inner formatter was called".into());
    }
    if calls.len() > 1 {
        return Some(format!("inner format called {} times", calls.len()));
    }
    if want != (calls.len() == 1) {
        return Some(format!("draw {}/2^24 {} rate {rate:e} but entry was {}", draw32(word32), if want { "<=" } else { ">" }, if want { "dropped" } else { "emitted" }));
    }
    if let Some(r) = calls.first() {
        if r.to_bits() != rate.to_bits() {
            return Some(format!("inner format got rate {:e}, the sampler's rate is {rate:e}", r));
        }
    }
    None
}

/// measured unbiasedness: bisection over the draw on the real `rate_to_n` path
fn run_ub(rate: f32, rng: &mut Rng) -> Result<Option<String>, String> {
    let top = (1u64 << 53) - 1;
    let w0 = impl_weight(rate, 0)?;
    let w1 = impl_weight(rate, top)?;
    // smallest k with weight(k) == w1 (weight is claimed to switch once from w0 to w1)
    let a: u64 = if w0 == w1 {
        0
    } else {
        let (mut lo, mut hi) = (0u64, top); // weight(lo) == w0, weight(hi) == w1
        while hi - lo > 1 {
            let mid = lo + (hi - lo) / 2;
            if impl_weight(rate, mid)? == w0 { lo = mid } else { hi = mid }
        }
        hi
    };
    for _ in 0..6 {
        let k = rng.below(1 << 53);
        let w = impl_weight(rate, k)?;
        let want = if w0 != w1 && k < a { w0 } else { w1 };
        if w != want {
            return Ok(Some(format!("weight is not a threshold function of the draw: weight({k})={w}, threshold {a}, w0={w0}, w1={w1}")));
        }
    }
    if let Some(e) = oracle_weight(rate, w0).or_else(|| oracle_weight(rate, w1)) {
        return Ok(Some(e));
    }
    if recip_below_2_53(rate) {
        let x = a as u128 * w0 as u128 + ((1u128 << 53) - a as u128) * w1 as u128;
        if !expectation_ok(rate, x) {
            return Ok(Some(format!("measured expectation ({a}*{w0} + (2^53-{a})*{w1})/2^53 differs from 1/rate by more than 2^-53/rate")));
        }
    }
    Ok(None)
}

// ------------------------------------------------------------------------------------------------
// congress

/// the (key id, value id) pairs an entry yields from `sample_group()`, in the order it yields them
type Pairs = Vec<(u32, u32)>;

/// group identity according to the documentation of `Entry::sample_group` ("the order of (key, value)
/// pairs in the group doesn't matter"): the SET of pairs = the sorted list. Computed here, never taken
/// from the implementation.
fn true_key(p: &Pairs) -> Pairs {
    let mut k = p.clone();
    k.sort();
    k
}

fn has_dup_key(p: &Pairs) -> bool {
    let k = true_key(p);
    k.windows(2).any(|w| w[0].0 == w[1].0)
}

fn enc_pairs(p: &Pairs) -> String {
    if p.is_empty() { "_".into() } else { p.iter().map(|(k, v)| format!("{k}.{v}")).collect::<Vec<_>>().join("+") }
}

fn dec_pairs(s: &str) -> Option<Pairs> {
    if s == "_" {
        return Some(vec![]);
    }
    s.split('+').map(|p| p.split_once('.').and_then(|(k, v)| Some((k.parse().ok()?, v.parse().ok()?)))).collect()
}

/// how the sampler is constructed (every public way)
#[derive(Clone, Copy, Debug, PartialEq)]
enum Ctor {
    /// `r`: builder, interval 1 day, `build_with_rng(scripted)`, clock frozen by the hook
    Rng,
    /// `c`: builder, interval 1000 days, `build_with_rng(scripted)`, clock NOT frozen: the first `format`
    /// call ends the (empty) zeroth interval through the real clock path
    Clock,
    /// `i<secs>`: builder, that interval, `build_with_rng(scripted)`, clock frozen
    Interval(u32),
    /// `b`: builder, `build()` (thread RNG: decisions are random), clock frozen
    Build,
    /// `e`: `format.sample_by_congress_at_fixed_entries_per_second(target)` (15 s interval, 15·target per
    /// interval, thread RNG, default validation), clock frozen
    Ext,
}

#[derive(Clone, Debug, PartialEq)]
struct CgCfg {
    /// `target_entries_per_interval` (for `Ctor::Ext`: entries per second)
    target: u32,
    /// `validate_groups(..)`; `None` = not called (default: `cfg!(debug_assertions)`)
    validate: Option<bool>,
    ctor: Ctor,
}

impl CgCfg {
    fn effective_target(&self) -> u32 {
        if self.ctor == Ctor::Ext { self.target * 15 } else { self.target }
    }
    fn effective_validate(&self) -> bool {
        if self.ctor == Ctor::Ext { cfg!(debug_assertions) } else { self.validate.unwrap_or(cfg!(debug_assertions)) }
    }
    fn scripted(&self) -> bool {
        !matches!(self.ctor, Ctor::Build | Ctor::Ext)
    }
    fn encode(&self) -> String {
        let v = match self.validate { None => "d", Some(false) => "0", Some(true) => "1" };
        let c = match self.ctor {
            Ctor::Rng => "r".to_string(),
            Ctor::Clock => "c".to_string(),
            Ctor::Interval(s) => format!("i{s}"),
            Ctor::Build => "b".to_string(),
            Ctor::Ext => "e".to_string(),
        };
        format!("{}/{v}/{c}", self.target)
    }
    fn decode(s: &str) -> Option<CgCfg> {
        let p: Vec<&str> = s.split('/').collect();
        if p.len() != 3 {
            return None;
        }
        let validate = match p[1] { "d" => None, "0" => Some(false), "1" => Some(true), _ => return None };
        let ctor = match p[2] {
            "r" => Ctor::Rng,
            "c" => Ctor::Clock,
            "b" => Ctor::Build,
            "e" => Ctor::Ext,
            x => Ctor::Interval(x.strip_prefix('i')?.parse().ok()?),
        };
        let target: u32 = p[0].parse().ok()?;
        if target == 0 || (ctor == Ctor::Ext && target > 10_000_000) {
            return None;
        }
        Some(CgCfg { target, validate, ctor })
    }
}

#[derive(Clone, Debug, PartialEq)]
enum CgOp {
    One(Pairs, u32),   // pairs as yielded, word32
    Adapt(Pairs, u32), // pairs as yielded, d
    Bulk(Pairs, u32),  // pairs as yielded, count
    End,
}

fn enc_cg(cfg: &CgCfg, ops: &[CgOp]) -> String {
    let mut s = format!("cg {}", cfg.encode());
    for o in ops {
        s.push(' ');
        s.push_str(&match o {
            CgOp::One(g, w) => format!("o{}:{w:08x}", enc_pairs(g)),
            CgOp::Adapt(g, d) => format!("a{}:{d}", enc_pairs(g)),
            CgOp::Bulk(g, c) => format!("n{}:{c}", enc_pairs(g)),
            CgOp::End => "E".to_string(),
        });
    }
    s
}

fn dec_cg(parts: &[&str]) -> Option<(CgCfg, Vec<CgOp>)> {
    let cfg = CgCfg::decode(parts.first()?)?;
    let mut ops = vec![];
    for p in &parts[1..] {
        let (k, body) = p.split_at(1);
        ops.push(match k {
            "E" => CgOp::End,
            "o" => {
                let (g, w) = body.split_once(':')?;
                CgOp::One(dec_pairs(g)?, u32::from_str_radix(w, 16).ok()?)
            }
            "a" => {
                let (g, d) = body.split_once(':')?;
                CgOp::Adapt(dec_pairs(g)?, d.parse().ok()?)
            }
            "n" => {
                let (g, c) = body.split_once(':')?;
                CgOp::Bulk(dec_pairs(g)?, c.parse().ok()?)
            }
            _ => return None,
        });
    }
    Some((cfg, ops))
}

struct CgRun {
    /// the model request (concrete draw words, observed iteration orders)
    request: String,
    /// the implementation's canonical answer, token per op
    answer: String,
    oracle: Option<String>,
    sampled_intervals: u64,
    draws_skipped_at_rate_one: u64,
    max_groups: usize,
    panics: u64,
    reordered_entries: u64,
}

fn group_entry(p: &Pairs) -> GenEntry {
    GenEntry { items: vec![], sample_group: p.iter().map(|(k, v)| (format!("k{k:02}"), format!("v{v:03}"))).collect() }
}

/// the pairs of a group reported by the implementation, as ids, SORTED (true identity)
fn key_of(group: &[(String, String)]) -> Option<Pairs> {
    let mut k: Pairs = group
        .iter()
        .map(|(k, v)| Some((k.strip_prefix('k')?.parse().ok()?, v.strip_prefix('v')?.parse().ok()?)))
        .collect::<Option<_>>()?;
    k.sort();
    Some(k)
}

fn run_cg(cfg: &CgCfg, ops: &[CgOp]) -> Result<CgRun, String> {
    use metrique_writer::sample::SampledFormatExt;
    catch(|| {
        let rec = Recorder::default();
        let rng = CellRng::default();
        let builder = || {
            let mut b = CongressSampleBuilder::default().target_entries_per_interval(cfg.target);
            if let Some(v) = cfg.validate {
                b = b.validate_groups(v);
            }
            b
        };
        match cfg.ctor {
            Ctor::Rng => {
                let mut s = builder().interval(Duration::from_secs(86400)).build_with_rng(rec.clone(), rng.clone());
                s.verif_freeze_clock();
                drive_cg(cfg, ops, s, &rec, &rng)
            }
            Ctor::Clock => {
                let s = builder().interval(Duration::from_secs(86400 * 1000)).build_with_rng(rec.clone(), rng.clone());
                drive_cg(cfg, ops, s, &rec, &rng)
            }
            Ctor::Interval(secs) => {
                let mut s = builder().interval(Duration::from_secs(secs.max(1) as u64)).build_with_rng(rec.clone(), rng.clone());
                s.verif_freeze_clock();
                drive_cg(cfg, ops, s, &rec, &rng)
            }
            Ctor::Build => {
                let mut s = builder().build(rec.clone());
                s.verif_freeze_clock();
                drive_cg(cfg, ops, s, &rec, &rng)
            }
            Ctor::Ext => {
                let mut s = rec.clone().sample_by_congress_at_fixed_entries_per_second(cfg.target);
                s.verif_freeze_clock();
                drive_cg(cfg, ops, s, &rec, &rng)
            }
        }
    })
}

fn drive_cg<R: rand::RngCore>(cfg: &CgCfg, ops: &[CgOp], mut s: CongressSample<Recorder, R>, rec: &Recorder, rng: &CellRng) -> CgRun {
    use std::collections::BTreeMap;
    let target = cfg.effective_target();
    let validate = cfg.effective_validate();
    let scripted = cfg.scripted();
    let mut request = format!("cg {target}/{}", validate as u8);
    let mut answer: Vec<String> = vec![];
    let mut oracle: Option<String> = None;
    // everything below is keyed by the TRUE group (sorted pairs)
    let mut rates: BTreeMap<Pairs, f32> = BTreeMap::new();
    let mut volume: BTreeMap<Pairs, u64> = BTreeMap::new(); // this interval
    let mut life: BTreeMap<Pairs, (u64, u64)> = BTreeMap::new(); // (min, max) non-zero interval volume while tracked
    let mut interval_total: u64 = 0;
    let mut run = CgRun { request: String::new(), answer: String::new(), oracle: None, sampled_intervals: 0, draws_skipped_at_rate_one: 0, max_groups: 0, panics: 0, reordered_entries: 0 };
    let fail = |what: String, oracle: &mut Option<String>| {
        if oracle.is_none() {
            *oracle = Some(what);
        }
    };
    for (i, op) in ops.iter().enumerate() {
        match op {
            CgOp::One(..) | CgOp::Adapt(..) | CgOp::Bulk(..) => {
                let (pairs, word, count) = match op {
                    CgOp::One(g, w) => (g, *w, 1u32),
                    CgOp::Adapt(g, d) => {
                        let r = rates.get(&true_key(g)).copied().unwrap_or(1.0);
                        let base = ((r as f64) * 16777216.0).floor() as i64 + *d as i64 - 1;
                        (g, (base.clamp(0, 0xff_ffff) as u32) << 8 | 0x5a, 1)
                    }
                    CgOp::Bulk(g, c) => (g, 0u32, *c),
                    CgOp::End => unreachable!(),
                };
                let bulk = matches!(op, CgOp::Bulk(..));
                let key = true_key(pairs);
                if *pairs != key {
                    run.reordered_entries += count as u64;
                }
                let rate = rates.get(&key).copied().unwrap_or(1.0);
                let tok_pairs = enc_pairs(pairs);
                let must_panic = validate && has_dup_key(pairs);
                rng.word.set((word as u64) << 32);
                let d0 = rng.draws.get();
                rec.sampled_calls.borrow_mut().clear();
                let e = group_entry(pairs);
                let mut panicked: Option<String> = None;
                let mut done = 0u32;
                for _ in 0..count {
                    match catch(|| s.format(&e, &mut std::io::sink())) {
                        Ok(r) => {
                            r.expect("format");
                            done += 1;
                        }
                        Err(p) => {
                            panicked = Some(p);
                            break;
                        }
                    }
                }
                if bulk || !scripted {
                    request.push_str(&format!(" n{tok_pairs}:{count}"));
                } else {
                    request.push_str(&format!(" o{tok_pairs}:{word:08x}"));
                }
                if let Some(p) = &panicked {
                    run.panics += 1;
                    if !must_panic {
                        fail(format!("op {i}: format panicked for group {tok_pairs} (validate_groups={validate}): {p}"), &mut oracle);
                    } else if !p.contains("duplicate group element name") {
                        fail(format!("op {i}: duplicate key with validate_groups on: unexpected panic message {p}"), &mut oracle);
                    }
                    if !rec.sampled_calls.borrow().is_empty() || done != 0 {
                        fail(format!("op {i}: an entry with a duplicate key was passed on before the assertion fired"), &mut oracle);
                    }
                    answer.push("P".into());
                    continue;
                }
                if must_panic {
                    fail(format!("op {i}: group {tok_pairs} has a duplicate key and validate_groups is on, but format did not panic"), &mut oracle);
                }
                interval_total += count as u64;
                *volume.entry(key.clone()).or_insert(0) += count as u64;
                let calls = rec.sampled_calls.borrow().clone();
                if rng.draws.get() == d0 && !bulk && scripted {
                    run.draws_skipped_at_rate_one += 1;
                }
                if let Some(r) = calls.iter().find(|r| r.to_bits() != rate.to_bits()) {
                    fail(format!("op {i}: inner format got rate {r:e} for an entry of group {}, whose rate is {rate:e} (spelled {tok_pairs})", enc_pairs(&key)), &mut oracle);
                }
                if scripted {
                    // draw 0 (bulk) is <= every rate
                    let want = rate == 1.0 || draw_le_rate(draw32(word), rate);
                    let want_n = if want { count as usize } else { 0 };
                    if calls.len() != want_n {
                        fail(format!("op {i}: group {tok_pairs} rate {rate:e} draw {}/2^24: {} of {count} entries emitted, should be {want_n}", draw32(word), calls.len()), &mut oracle);
                    }
                } else if calls.len() > count as usize || (rate == 1.0 && calls.len() != count as usize) {
                    fail(format!("op {i}: group {tok_pairs} rate {rate:e}: {} of {count} entries emitted", calls.len()), &mut oracle);
                }
                answer.push(if bulk || !scripted {
                    "b".into()
                } else {
                    match calls.first() {
                        Some(r) => format!("e{}", f32_bits(*r)),
                        None => format!("d{}", f32_bits(rate)),
                    }
                });
            }
            CgOp::End => {
                if s.verif_current_observed() as u64 != interval_total {
                    fail(format!("op {i}: sampler counted {} entries in the interval, {} were formatted", s.verif_current_observed(), interval_total), &mut oracle);
                }
                s.verif_end_interval();
                let gr = s.verif_group_rates();
                let mut order = vec![];
                let mut rows: Vec<(Pairs, f32, f32)> = vec![];
                for (g, rate, avg, _cur) in &gr {
                    let key = key_of(g).expect("group ids");
                    order.push(enc_pairs(&key));
                    if rows.iter().any(|r| r.0 == key) {
                        fail(format!("op {i}: group {} is tracked as more than one group (as yielded: {:?}): the order of pairs must not matter", enc_pairs(&key), g), &mut oracle);
                        continue;
                    }
                    rows.push((key, *rate, *avg));
                }
                run.max_groups = run.max_groups.max(rows.len());
                // true volumes: every tracked group's average lies between the smallest and the largest
                // non-zero interval volume of the TRUE group while it has been tracked
                life.retain(|k, _| rows.iter().any(|r| r.0 == *k));
                for (k, v) in &volume {
                    if *v > 0 {
                        let e = life.entry(k.clone()).or_insert((*v, *v));
                        e.0 = e.0.min(*v);
                        e.1 = e.1.max(*v);
                    }
                }
                for (k, v) in &volume {
                    if *v > 0 && !rows.iter().any(|r| r.0 == *k) {
                        fail(format!("op {i}: group {} had {v} entries in the interval but is not tracked", enc_pairs(k)), &mut oracle);
                    }
                }
                for (k, _, avg) in &rows {
                    if let Some((lo, hi)) = life.get(k) {
                        let a = *avg as f64;
                        if a < *lo as f64 * (1.0 - 1e-4) || a > *hi as f64 * (1.0 + 1e-4) {
                            fail(format!("op {i}: average volume {a} of group {} is outside the range [{lo}, {hi}] of its true interval volumes", enc_pairs(k)), &mut oracle);
                        }
                    }
                }
                // property oracle on the implementation's rates
                let t = target as f64;
                for (k, rate, _) in &rows {
                    if !(*rate > 0.0 && *rate <= 1.0) {
                        fail(format!("op {i}: rate of {} is {rate:e}, outside (0,1]", enc_pairs(k)), &mut oracle);
                    }
                }
                if interval_total <= target as u64 {
                    if let Some((k, rate, _)) = rows.iter().find(|r| r.1 != 1.0) {
                        fail(format!("op {i}: interval saw {interval_total} <= target {target} but {} has rate {rate:e}", enc_pairs(k)), &mut oracle);
                    }
                } else {
                    run.sampled_intervals += 1;
                    let budget: f64 = rows.iter().map(|r| r.2 as f64 * r.1 as f64).sum();
                    if budget > t * (1.0 + 1e-4) {
                        fail(format!("op {i}: sum(avg*rate) = {budget} exceeds target {target}"), &mut oracle);
                    }
                    for a in &rows {
                        for b in &rows {
                            if a.2 <= b.2 && (a.1 as f64) < b.1 as f64 * (1.0 - 1e-4) {
                                fail(format!("op {i}: {} (avg {}) is rarer than {} (avg {}) but has the lower rate {:e} < {:e}", enc_pairs(&a.0), a.2, enc_pairs(&b.0), b.2, a.1, b.1), &mut oracle);
                            }
                        }
                    }
                }
                rates = rows.iter().map(|r| (r.0.clone(), r.1)).collect();
                interval_total = 0;
                volume.clear();
                rows.sort_by(|a, b| a.0.cmp(&b.0));
                request.push_str(&format!(" E{}", order.join(",")));
                answer.push(format!("R{}", rows.iter().map(|r| format!("{}:{}:{}", enc_pairs(&r.0), f32_bits(r.1), f32_bits(r.2))).collect::<Vec<_>>().join(";")));
            }
        }
    }
    if rec.plain_calls.get() != 0 {
        fail("the unsampled Format::format of the inner formatter was called".into(), &mut oracle);
    }
    run.request = request;
    run.answer = answer.join(" ");
    run.oracle = oracle;
    run
}

// ------------------------------------------------------------------------------------------------
// congress under its REAL clock
//
// `rt <target>/<v>/<interval_ms> <step>…`; step `n<pairs>:<count>` = that many entries back to back,
// `W<k>` = sleep until just past the end of the current interval plus k-1 further whole intervals (the
// next entry then rolls the interval over - once, however long the wait was).
//
// Timing is never an oracle. Every `format` call is bracketed by two reads of the same monotonic clock
// the sampler uses, so the sampler's own `Instant::now()` lies in [t, t2]; the harness tracks the interval
// in which `next_interval_start` must lie and decides "rolled over" / "did not" only when the bracket
// settles it. Anything else (a boundary inside a bracket, the harness descheduled across a boundary, a
// roll-over where the script wanted none) DISCARDS the attempt; the case is retried, discards are counted.

#[derive(Clone, Debug, PartialEq)]
enum RtStep {
    Entries(Pairs, u32),
    Wait(u32),
}

#[derive(Clone, Debug, PartialEq)]
struct RtCfg {
    target: u32,
    validate: Option<bool>,
    interval_ms: u32,
}

fn enc_rt(cfg: &RtCfg, steps: &[RtStep]) -> String {
    let v = match cfg.validate { None => "d", Some(false) => "0", Some(true) => "1" };
    let mut s = format!("rt {}/{v}/{}", cfg.target, cfg.interval_ms);
    for st in steps {
        s.push(' ');
        s.push_str(&match st {
            RtStep::Entries(p, c) => format!("n{}:{c}", enc_pairs(p)),
            RtStep::Wait(k) => format!("W{k}"),
        });
    }
    s
}

fn dec_rt(parts: &[&str]) -> Option<(RtCfg, Vec<RtStep>)> {
    let h: Vec<&str> = parts.first()?.split('/').collect();
    if h.len() != 3 {
        return None;
    }
    let validate = match h[1] { "d" => None, "0" => Some(false), "1" => Some(true), _ => return None };
    let cfg = RtCfg { target: h[0].parse().ok()?, validate, interval_ms: h[2].parse().ok()? };
    if cfg.target == 0 || cfg.interval_ms == 0 || cfg.interval_ms > 2000 {
        return None;
    }
    let mut steps = vec![];
    for p in &parts[1..] {
        let (k, body) = p.split_at(1);
        steps.push(match k {
            "W" => RtStep::Wait(body.parse::<u32>().ok()?.clamp(1, 20)),
            "n" => {
                let (g, c) = body.split_once(':')?;
                RtStep::Entries(dec_pairs(g)?, c.parse().ok()?)
            }
            _ => return None,
        });
    }
    Some((cfg, steps))
}

enum RtOutcome {
    Done { request: String, answer: String, oracle: Option<String>, rollovers: u64, entries: u64, low_volume_intervals: u64 },
    Discard(&'static str),
}

fn run_rt_once(cfg: &RtCfg, steps: &[RtStep]) -> Result<RtOutcome, String> {
    use std::collections::BTreeMap;
    use std::time::Instant;
    catch(|| {
        let rec = Recorder::default();
        let rng = CellRng::default(); // word 0: draw 0 <= every rate, every entry reaches the recorder
        let interval = Duration::from_millis(cfg.interval_ms as u64);
        let interval_ns = interval.as_nanos() as u64;
        let guard = Duration::from_millis(2);
        let mut b = CongressSampleBuilder::default().target_entries_per_interval(cfg.target).interval(interval);
        if let Some(v) = cfg.validate {
            b = b.validate_groups(v);
        }
        let validate = cfg.validate.unwrap_or(cfg!(debug_assertions));
        let t0 = Instant::now();
        let ns = |t: Instant| t.duration_since(t0).as_nanos() as u64;
        let mut s = b.build_with_rng(rec.clone(), rng.clone());
        // `next_interval_start` was read inside `build`: it lies in [n_lo, n_hi]
        let (mut n_lo, mut n_hi) = (0u64, ns(Instant::now()));
        std::thread::sleep(Duration::from_micros(200));
        let mut request = format!("rt {}/{}/{interval_ns}/{n_hi}", cfg.target, validate as u8);
        let mut answer: Vec<String> = vec![];
        let mut oracle: Option<String> = None;
        let mut rates: BTreeMap<Pairs, f32> = BTreeMap::new();
        let mut volume: BTreeMap<Pairs, u64> = BTreeMap::new();
        let mut life: BTreeMap<Pairs, (u64, u64)> = BTreeMap::new();
        let mut interval_total = 0u64; // entries since the last roll-over, by the harness's own bucketing
        let mut must_be_one = true; // no interval has been above target yet
        let mut expect_roll = true;
        let (mut rollovers, mut entries, mut low) = (0u64, 0u64, 0u64);
        let fail = |what: String, oracle: &mut Option<String>| {
            if oracle.is_none() {
                *oracle = Some(what);
            }
        };
        'steps: for (si, step) in steps.iter().enumerate() {
            match step {
                RtStep::Wait(k) => {
                    let until = t0 + Duration::from_nanos(n_hi + (*k as u64 - 1) * interval_ns) + guard;
                    loop {
                        let now = Instant::now();
                        if now >= until {
                            break;
                        }
                        std::thread::sleep(until - now);
                    }
                    expect_roll = true;
                }
                RtStep::Entries(pairs, count) => {
                    let key = true_key(pairs);
                    let e = group_entry(pairs);
                    for _ in 0..*count {
                        let pre: Option<Vec<Pairs>> = if expect_roll {
                            Some(s.verif_group_rates().iter().map(|g| key_of(&g.0).expect("ids")).collect())
                        } else {
                            None
                        };
                        rec.sampled_calls.borrow_mut().clear();
                        let t = ns(Instant::now());
                        s.format(&e, &mut std::io::sink()).expect("format");
                        let t2 = ns(Instant::now());
                        let rolled = if t > n_hi {
                            true
                        } else if t2 + guard.as_nanos() as u64 <= n_lo {
                            false
                        } else {
                            return RtOutcome::Discard("an entry landed within the guard band of an interval boundary");
                        };
                        if rolled != expect_roll {
                            return RtOutcome::Discard("harness descheduled across an interval boundary");
                        }
                        entries += 1;
                        let mut tok = String::new();
                        let since = if rolled { 1 } else { interval_total + 1 };
                        if s.verif_current_observed() as u64 != since {
                            fail(format!("step {si}: this is entry {since} since the interval boundary (interval {} ms, by the harness's reading of the same clock), the sampler counts {}: it did not roll the interval over when the clock passed the boundary", cfg.interval_ms, s.verif_current_observed()), &mut oracle);
                        }
                        if rolled {
                            rollovers += 1;
                            if interval_total > 0 && interval_total < 16 {
                                low += 1;
                            }
                            (n_lo, n_hi) = (t + interval_ns, t2 + interval_ns);
                            let pre = pre.unwrap_or_default();
                            // the groups as `update_rates` left them: those that existed before this call
                            let mut rows: Vec<(Pairs, f32, f32)> = vec![];
                            for (g, rate, avg, _) in s.verif_group_rates() {
                                let k = key_of(&g).expect("ids");
                                if pre.contains(&k) && !rows.iter().any(|r| r.0 == k) {
                                    rows.push((k, rate, avg));
                                }
                            }
                            life.retain(|k, _| rows.iter().any(|r| r.0 == *k));
                            for (k, v) in &volume {
                                let e = life.entry(k.clone()).or_insert((*v, *v));
                                e.0 = e.0.min(*v);
                                e.1 = e.1.max(*v);
                            }
                            if rollovers > 1 {
                                for w in judge_rates(cfg.target, interval_total, &rows, &life) {
                                    fail(format!("step {si}: interval ended by the clock: {w}"), &mut oracle);
                                }
                            }
                            must_be_one = interval_total <= cfg.target as u64;
                            rates = rows.iter().map(|r| (r.0.clone(), r.1)).collect();
                            rows.sort_by(|a, b| a.0.cmp(&b.0));
                            tok = format!("R{}|", rows.iter().map(|r| format!("{}:{}:{}", enc_pairs(&r.0), f32_bits(r.1), f32_bits(r.2))).collect::<Vec<_>>().join(";"));
                            request.push_str(&format!(" o{}@{t}~{}:00000000", enc_pairs(pairs), pre.iter().map(enc_pairs).collect::<Vec<_>>().join(",")));
                            interval_total = 0;
                            volume.clear();
                            expect_roll = false;
                        } else {
                            request.push_str(&format!(" o{}@{t}:00000000", enc_pairs(pairs)));
                        }
                        interval_total += 1;
                        *volume.entry(key.clone()).or_insert(0) += 1;
                        let calls = rec.sampled_calls.borrow().clone();
                        let want = if must_be_one { 1.0 } else { rates.get(&key).copied().unwrap_or(1.0) };
                        match calls.as_slice() {
                            [r] => {
                                if !(*r > 0.0 && *r <= 1.0) {
                                    fail(format!("step {si}: rate {r:e} handed to an entry is outside (0,1]"), &mut oracle);
                                }
                                if must_be_one && *r != 1.0 {
                                    fail(format!("step {si}: the previous interval saw no more than the target {} but an entry of group {} was handed rate {r:e}", cfg.target, enc_pairs(&key)), &mut oracle);
                                } else if r.to_bits() != want.to_bits() {
                                    fail(format!("step {si}: entry of group {} was handed rate {r:e}, the group's rate for this interval is {want:e}", enc_pairs(&key)), &mut oracle);
                                }
                                tok.push_str(&format!("e{}", f32_bits(*r)));
                            }
                            other => {
                                fail(format!("step {si}: an entry with draw 0 reached the inner format {} times", other.len()), &mut oracle);
                                tok.push_str("d?");
                            }
                        }
                        answer.push(tok);
                        if oracle.is_some() {
                            break 'steps;
                        }
                    }
                }
            }
        }
        RtOutcome::Done { request, answer: answer.join(" "), oracle, rollovers, entries, low_volume_intervals: low }
    })
}

/// the four congress invariants on the rates of one ended interval (rows = (true group, rate, average))
fn judge_rates(target: u32, interval_total: u64, rows: &[(Pairs, f32, f32)], life: &std::collections::BTreeMap<Pairs, (u64, u64)>) -> Vec<String> {
    let mut out = vec![];
    for (k, rate, avg) in rows {
        if !(*rate > 0.0 && *rate <= 1.0) {
            out.push(format!("rate of {} is {rate:e}, outside (0,1]", enc_pairs(k)));
        }
        if let Some((lo, hi)) = life.get(k) {
            let a = *avg as f64;
            if a < *lo as f64 * (1.0 - 1e-4) || a > *hi as f64 * (1.0 + 1e-4) {
                out.push(format!("average volume {a} of group {} is outside the range [{lo}, {hi}] of its true interval volumes", enc_pairs(k)));
            }
        }
    }
    if interval_total <= target as u64 {
        if let Some((k, rate, _)) = rows.iter().find(|r| r.1 != 1.0) {
            out.push(format!("the interval saw {interval_total} <= target {target} but {} has rate {rate:e}", enc_pairs(k)));
        }
    } else {
        let budget: f64 = rows.iter().map(|r| r.2 as f64 * r.1 as f64).sum();
        if budget > target as f64 * (1.0 + 1e-4) {
            out.push(format!("sum(avg*rate) = {budget} exceeds target {target}"));
        }
        for a in rows {
            for b in rows {
                if a.2 <= b.2 && (a.1 as f64) < b.1 as f64 * (1.0 - 1e-4) {
                    out.push(format!("{} (avg {}) is rarer than {} (avg {}) but has the lower rate {:e} < {:e}", enc_pairs(&a.0), a.2, enc_pairs(&b.0), b.2, a.1, b.1));
                }
            }
        }
    }
    out
}

struct RtResult {
    done: Option<(String, String, Option<String>, u64, u64, u64)>,
    discards: Vec<&'static str>,
}

/// retries until an attempt is free of timing ambiguity (at most `attempts` times)
fn run_rt(cfg: &RtCfg, steps: &[RtStep], attempts: usize) -> Result<RtResult, String> {
    let mut discards = vec![];
    for _ in 0..attempts {
        match run_rt_once(cfg, steps)? {
            RtOutcome::Done { request, answer, oracle, rollovers, entries, low_volume_intervals } => {
                return Ok(RtResult { done: Some((request, answer, oracle, rollovers, entries, low_volume_intervals)), discards });
            }
            RtOutcome::Discard(why) => discards.push(why),
        }
    }
    Ok(RtResult { done: None, discards })
}

fn gen_rt(rng: &mut Rng, i: usize) -> (RtCfg, Vec<RtStep>) {
    let target = rng.range(5, 20) as u32;
    let cfg = RtCfg {
        target,
        validate: *rng.pick(&[None, Some(false), Some(true)]),
        interval_ms: rng.range(20, 50) as u32,
    };
    let ngroups = rng.range(1, 3) as usize;
    let groups: Vec<Pairs> = (0..ngroups).map(|g| if g == 0 { vec![(1, 1)] } else { vec![(1, g as u32 + 1), (2, 1)] }).collect();
    let intervals = rng.range(5, 9);
    let mut steps = vec![];
    let mut wait = 0u32;
    for j in 0..intervals {
        let vol = match i % 4 {
            0 => (target as u64 * 4 / 5).max(1),                       // steady, just below target, below 16
            1 => if j == 0 { rng.range(30, 40) } else { 1 },           // burst, then a trickle
            _ => match rng.below(10) {
                0 => 0,
                1..=6 => rng.range(1, 15),
                _ => rng.range(16, 40),
            },
        } as u32;
        if vol == 0 && j > 0 {
            wait += 1; // an interval without entries: the next roll-over covers it too
            continue;
        }
        if j > 0 {
            steps.push(RtStep::Wait(wait + 1));
            wait = 0;
        }
        let mut rest = vol.max(1);
        for (gi, g) in groups.iter().enumerate() {
            let c = if gi + 1 == groups.len() { rest } else { rng.below(rest as u64 + 1) as u32 };
            rest -= c;
            if c > 0 {
                let mut p = g.clone();
                if rng.chance(1, 2) {
                    p.reverse();
                }
                steps.push(RtStep::Entries(p, c));
            }
        }
    }
    (cfg, steps)
}

// ------------------------------------------------------------------------------------------------
// the default RNG path
//
// (a) `dr <word64h>,… <call>…`: `DefaultRng<R>` over a scripted `R: Default + RngCore` whose `default()` is a
//     handle on a thread-local script (the way `ThreadRng::default()` is a handle on the thread's generator).
// (b) `st <rate32h> <n>`: statistics of the REAL default path (`ThreadRng`, OS-seeded; independent of VERIF_SEED).

struct TlState {
    words: Vec<u64>,
    pos: usize,
    log: Vec<String>,
}

thread_local! {
    static TL: RefCell<TlState> = const { RefCell::new(TlState { words: vec![], pos: 0, log: vec![] }) };
}

#[derive(Default)]
struct TlRng;

fn tl_word() -> u64 {
    TL.with(|t| {
        let mut t = t.borrow_mut();
        let w = t.words.get(t.pos).copied().unwrap_or(0);
        t.pos += 1;
        w
    })
}

fn tl_log(s: String) {
    TL.with(|t| t.borrow_mut().log.push(s));
}

impl rand::RngCore for TlRng {
    fn next_u32(&mut self) -> u32 {
        tl_log("a".into());
        (tl_word() >> 32) as u32
    }
    fn next_u64(&mut self) -> u64 {
        tl_log("b".into());
        tl_word()
    }
    fn fill_bytes(&mut self, dst: &mut [u8]) {
        tl_log(format!("f{}", dst.len()));
        for chunk in dst.chunks_mut(8) {
            let w = tl_word().to_le_bytes();
            chunk.copy_from_slice(&w[..chunk.len()]);
        }
    }
}

#[derive(Clone, Debug, PartialEq)]
enum RngCallK {
    U32,
    U64,
    Fill(usize),
    F32,
    F64,
}

fn enc_calls(c: &[RngCallK]) -> String {
    c.iter()
        .map(|c| match c {
            RngCallK::U32 => "a".to_string(),
            RngCallK::U64 => "b".to_string(),
            RngCallK::Fill(n) => format!("f{n}"),
            RngCallK::F32 => "e".to_string(),
            RngCallK::F64 => "d".to_string(),
        })
        .collect::<Vec<_>>()
        .join(" ")
}

fn do_calls<G: rand::RngCore>(g: &mut G, calls: &[RngCallK]) -> Vec<String> {
    use rand::Rng;
    calls
        .iter()
        .map(|c| match c {
            RngCallK::U32 => format!("{:08x}", g.next_u32()),
            RngCallK::U64 => format!("{:016x}", g.next_u64()),
            RngCallK::Fill(n) => {
                let mut b = vec![0xAAu8; *n];
                g.fill_bytes(&mut b);
                if b.is_empty() { "-".into() } else { b.iter().map(|x| format!("{x:02x}")).collect() }
            }
            RngCallK::F32 => f32_bits(g.random::<f32>()),
            RngCallK::F64 => f64_bits(g.random::<f64>()),
        })
        .collect()
}

/// (outputs through `DefaultRng<TlRng>`, the inner generator's call log, outputs of the inner generator used directly)
fn run_dr(words: &[u64], calls: &[RngCallK]) -> Result<(Vec<String>, Vec<String>, Vec<String>), String> {
    catch(|| {
        let reset = || TL.with(|t| *t.borrow_mut() = TlState { words: words.to_vec(), pos: 0, log: vec![] });
        reset();
        let mut w = metrique_writer::sample::DefaultRng::<TlRng>::default();
        let through = do_calls(&mut w, calls);
        let log = TL.with(|t| t.borrow().log.clone());
        reset();
        let direct = do_calls(&mut TlRng, calls);
        (through, log, direct)
    })
}

fn oracle_dr(calls: &[RngCallK], through: &[String], log: &[String], direct: &[String]) -> Option<String> {
    let want: Vec<String> = calls
        .iter()
        .map(|c| match c {
            RngCallK::U32 | RngCallK::F32 => "a".to_string(),
            RngCallK::U64 | RngCallK::F64 => "b".to_string(),
            RngCallK::Fill(n) => format!("f{n}"),
        })
        .collect();
    if through != direct {
        let i = through.iter().zip(direct).position(|(a, b)| a != b).unwrap_or(0);
        return Some(format!("call {i} ({}): DefaultRng returned {} where the inner generator returns {}", enc_calls(&calls[i..=i]), through[i], direct[i]));
    }
    if log != want.as_slice() {
        return Some(format!("DefaultRng forwarded the calls [{}] to the inner generator as [{}]", want.join(" "), log.join(" ")));
    }
    None
}

/// Bernstein's inequality: for the mean of n independent variables with variance <= v and |X - EX| <= b,
/// P(|mean - EX| >= eps) <= 2 exp(-n eps^2 / (2 (v + b eps / 3))). Returns the eps for which the bound is 1e-9.
fn bernstein_eps(n: f64, v: f64, b: f64) -> f64 {
    let l = (2.0f64 / 1e-9).ln();
    let k = 2.0 * l * b / 3.0;
    (k + (k * k + 8.0 * l * v * n).sqrt()) / (2.0 * n)
}

/// one pass of the statistics of the default path for `rate`; `Some(what)` = outside the bounds
fn stat_pass(rate: f32, n: u64) -> Result<Option<String>, String> {
    use metrique_writer::sample::SampledFormatExt;
    catch(|| {
        let (fl, ce) = recip_floor_ceil(rate);
        let inv = 1.0 / rate as f64;
        let p_floor = if fl == ce { 1.0 } else { ce as f64 - inv }; // expectation 1/rate <=> P(floor) = ceil - 1/rate
        let (m, e) = dec32(rate);
        let p_emit = if rate >= 1.0 { 1.0 } else { (((m as u128) << 24 >> (-e) as u32) as f64 + 1.0) / 16777216.0 }; // P(d/2^24 <= rate), d uniform
        // FixedFractionSample::new over Emf::with_sampling(): both on DefaultRng<ThreadRng>
        let mut f = Emf::builder("Ns".to_string(), vec![vec![]]).skip_all_validations(true).build().with_sampling().sample_by_fixed_fraction(rate);
        let entry = GenEntry {
            items: vec![GItem::Timestamp(1_700_000_000_000_000), GItem::Value("W".into(), GVal::Metric { obs: vec![Observation::Unsigned(1)], unit: Unit::None, dims: vec![], flags: GFlags::None })],
            sample_group: vec![],
        };
        let mut out: Vec<u8> = vec![];
        let (mut emitted, mut n_fl, mut n_ce, mut total) = (0u64, 0u64, 0u64, 0f64);
        for _ in 0..n {
            out.clear();
            f.format(&entry, &mut out).expect("format");
            if out.is_empty() {
                continue;
            }
            emitted += 1;
            let text = std::str::from_utf8(&out).expect("utf8");
            let i = text.find("\"Counts\":[").expect("Counts") + 10;
            let j = i + text[i..].find(']').expect("]");
            let w: u64 = text[i..j].parse().expect("count");
            if w == fl {
                n_fl += 1;
            } else if w == ce {
                n_ce += 1;
            } else {
                return Some(format!("default path: weight {w} is neither floor {fl} nor ceil {ce} of 1/rate"));
            }
            total += w as f64;
        }
        let nf = n as f64;
        let eps = bernstein_eps(nf, p_emit * (1.0 - p_emit), 1.0);
        let got = emitted as f64 / nf;
        if (got - p_emit).abs() > eps {
            return Some(format!("default path (FixedFractionSample::new): {emitted} of {n} entries emitted = {got:.5}, expected {p_emit:.5} +- {eps:.5} (false-alarm bound 1e-9)"));
        }
        if emitted > 0 {
            let ef = emitted as f64;
            let eps = bernstein_eps(ef, p_floor * (1.0 - p_floor), 1.0);
            let got = n_fl as f64 / ef;
            if (got - p_floor).abs() > eps {
                return Some(format!("default path (Emf::with_sampling): weight {fl} (floor) chosen {n_fl} times and {ce} (ceil) {n_ce} times of {emitted}: P(floor) = {got:.6}, an expectation of 1/rate needs {p_floor:.6} +- {eps:.6} (false-alarm bound 1e-9)"));
            }
        }
        // unbiasedness end to end: the total weight per offered entry has expectation p_emit / rate (= 1 up to 2^-24)
        let ew = inv;
        let ew2 = p_floor * (fl as f64).powi(2) + (1.0 - p_floor) * (ce as f64).powi(2);
        let mu = p_emit * ew;
        let var = p_emit * ew2 - mu * mu;
        let eps = bernstein_eps(nf, var, ce as f64);
        let got = total / nf;
        if (got - mu).abs() > eps {
            return Some(format!("default path: mean weight per offered entry {got:.5}, expected {mu:.5} +- {eps:.5} (false-alarm bound 1e-9)"));
        }
        None
    })
}

/// the emission frequency of `CongressSampleBuilder::build()` (thread RNG) at a known rate
fn stat_congress(n: u64) -> Result<Option<String>, String> {
    catch(|| {
        let rec = Recorder::default();
        let mut s = CongressSampleBuilder::default().target_entries_per_interval(100).interval(Duration::from_secs(86400)).build(rec.clone());
        s.verif_freeze_clock();
        let e = group_entry(&vec![(1, 1)]);
        for _ in 0..250 {
            s.format(&e, &mut std::io::sink()).expect("format");
        }
        s.verif_end_interval();
        let rate = s.verif_group_rates()[0].1; // 100/250
        rec.sampled_calls.borrow_mut().clear();
        for _ in 0..n {
            s.format(&e, &mut std::io::sink()).expect("format");
        }
        let emitted = rec.sampled_calls.borrow().len() as f64;
        let (m, ex) = dec32(rate);
        let p = (((m as u128) << 24 >> (-ex) as u32) as f64 + 1.0) / 16777216.0;
        let eps = bernstein_eps(n as f64, p * (1.0 - p), 1.0);
        let got = emitted / n as f64;
        if (got - p).abs() > eps {
            return Some(format!("default path (CongressSampleBuilder::build): {emitted} of {n} entries emitted at rate {rate:e} = {got:.5}, expected {p:.5} +- {eps:.5} (false-alarm bound 1e-9)"));
        }
        None
    })
}

/// strip the `noObs` field of the model's `R` tokens (not observable through the hooks)
fn canon_model_cg(reply: &str) -> String {
    reply
        .split(' ')
        .map(|t| {
            if let Some(body) = t.strip_prefix('R') {
                let rows: Vec<String> = body
                    .split(';')
                    .filter(|r| !r.is_empty())
                    .map(|r| r.split(':').take(3).collect::<Vec<_>>().join(":"))
                    .collect();
                format!("R{}", rows.join(";"))
            } else {
                t.to_string()
            }
        })
        .collect::<Vec<_>>()
        .join(" ")
}

/// the same for the `R<rows>|<decision>` tokens of the real-clock stage
fn canon_model_rt(reply: &str) -> String {
    reply
        .split(' ')
        .map(|t| match t.split_once('|') {
            Some((r, d)) if r.starts_with('R') => format!("{}|{d}", canon_model_cg(r)),
            _ => t.to_string(),
        })
        .collect::<Vec<_>>()
        .join(" ")
}

// ------------------------------------------------------------------------------------------------
// generators

fn f32b(b: u32) -> f32 {
    f32::from_bits(b)
}

const ONE: u32 = 0x3f80_0000;

/// a rate in (0,1], as bits
fn gen_rate(rng: &mut Rng) -> u32 {
    let b = match rng.below(12) {
        0 => ONE - rng.below(64) as u32,                                   // just below 1
        1 => {
            // power of two, down to the smallest subnormal
            let ex = 127 - rng.below(150) as i64;
            if ex >= 1 { (ex as u32) << 23 } else { 1u32 << (22 + ex) }
        }
        2 => {
            let k = rng.range(1, 5000) as f32;                             // neighbours of 1/k
            (1.0f32 / k).to_bits().wrapping_add(rng.below(5) as u32).wrapping_sub(2)
        }
        3 => rng.range(1, 0x7f_ffff) as u32,                               // subnormal
        4 => {
            // 2^-63, 2^-64, 2^-53, 2^-52, 2^-54, 2^-24, 2^-23 and their neighbours
            let c = *rng.pick(&[0x2000_0000u32, 0x1f80_0000, 0x2500_0000, 0x2580_0000, 0x2480_0000, 0x3380_0000, 0x3400_0000]);
            (c + 16).wrapping_sub(rng.below(33) as u32)
        }
        5 => rng.range(0x1f00_0000, 0x2600_0000) as u32, // 2^-65 .. 2^-51
        6 => {
            // few mantissa bits
            let ex = rng.range(1, 127) as u32;
            let mut fr = 0u32;
            for _ in 0..rng.below(3) { fr |= 1 << rng.below(23); }
            ex << 23 | fr
        }
        7 => (rng.range(0.max(127 - 12), 127) as u32) << 23 | rng.below(1 << 23) as u32, // common rates 2^-12..1
        8 => ((rng.range(1, 100) as f32) / 100.0).to_bits(),
        _ => rng.range(1, ONE as u64) as u32,                              // uniform over all bit patterns in (0,1]
    };
    if b == 0 || b > ONE { ONE } else { b }
}

fn hook_domain(rate: f32) -> bool {
    rate >= f32b(0x2000_0000) // 2^-63: `rate_to_n` calls `rate_to_n_alpha` only from here upwards
}

fn gen_word64(rng: &mut Rng, rate: f32) -> u64 {
    match rng.below(6) {
        0 => 0,
        1 => u64::MAX,
        2 | 3 if hook_domain(rate) => {
            // the boundary draw: alpha * 2^53 and its neighbours
            let (_, alpha) = verif_rate_to_n_alpha(rate);
            let a = (alpha.clamp(0.0, 1.0) * 9007199254740992.0) as u64;
            let k = (a + rng.below(3)).saturating_sub(1).min((1 << 53) - 1);
            k << 11 | rng.below(1 << 11)
        }
        _ => rng.next_u64(),
    }
}

fn gen_metrics(rng: &mut Rng) -> Vec<Vec<ObsK>> {
    let n = rng.below(4);
    (0..n)
        .map(|_| {
            let k = rng.below(5);
            (0..k)
                .map(|_| match rng.below(9) {
                    0 | 1 => ObsK::S,
                    2 => ObsK::F,
                    3 => ObsK::X,
                    4 => ObsK::Y(rng.below(5)),
                    5 => ObsK::R(0),
                    6 => ObsK::R(u64::MAX - rng.below(3)),
                    7 => ObsK::R(1u64 << rng.below(64)),
                    _ => ObsK::R(rng.range(1, 100_000)),
                })
                .collect()
        })
        .collect()
}

fn gen_cg(rng: &mut Rng, big: bool) -> (CgCfg, Vec<CgOp>) {
    let ctor = match rng.below(20) {
        0..=9 => Ctor::Rng,
        10 | 11 => Ctor::Clock,
        12..=14 => Ctor::Interval(*rng.pick(&[1u32, 15, 60, 3600, 4_000_000])),
        15..=17 => Ctor::Build,
        _ => Ctor::Ext,
    };
    let validate = match rng.below(20) {
        0..=7 => None,
        8..=14 => Some(false),
        _ => Some(true),
    };
    let target = if ctor == Ctor::Ext {
        rng.range(1, 100) as u32
    } else {
        match rng.below(6) {
            0 => 1,
            1 => rng.range(2, 10) as u32,
            2 => 100,
            3 => 1500,
            _ => rng.range(10, 3000) as u32,
        }
    };
    let cfg = CgCfg { target, validate, ctor };
    let target = cfg.effective_target();
    let ngroups = if rng.chance(1, 8) { rng.range(9, 40) } else { rng.range(1, 8) } as usize;
    // true groups: sets of 0..3 pairs with distinct keys (a few share keys/values so that only the value differs)
    let mut groups: Vec<Pairs> = vec![];
    while groups.len() < ngroups {
        let np = *rng.pick(&[0usize, 1, 2, 2, 2, 3, 3]);
        let mut keys = vec![1u32, 2, 3, 4];
        rng.shuffle(&mut keys);
        let mut g: Pairs = keys[..np].iter().map(|k| (*k, rng.range(1, if ngroups > 8 { 6 } else { 3 }) as u32)).collect();
        g.sort();
        if !groups.contains(&g) {
            groups.push(g);
        } else if np == 0 && groups.len() + 1 == ngroups {
            break;
        }
    }
    let ngroups = groups.len();
    let base: Vec<u32> = (0..ngroups)
        .map(|_| match rng.below(5) {
            0 => rng.range(1, 3) as u32,
            1 => (target / ngroups as u32).max(1),
            2 => rng.range(1, 2 * target as u64) as u32,
            3 => rng.range(1, if big { 20 * target as u64 } else { 6 * target as u64 }) as u32,
            _ => rng.range(1, (target as u64 / 2).max(1)) as u32,
        })
        .collect();
    // how an entry of group g spells it this time
    let spell = |rng: &mut Rng, g: &Pairs| -> Pairs {
        let mut p = g.clone();
        if rng.chance(2, 3) {
            rng.shuffle(&mut p);
        }
        p
    };
    let intervals = if rng.chance(1, 10) { rng.range(20, 45) } else { rng.range(1, 12) };
    let mut ops = vec![];
    let mut alive: Vec<bool> = (0..ngroups).map(|_| rng.chance(3, 4)).collect();
    for _ in 0..intervals {
        let quiet = rng.chance(1, 10); // zero-volume interval
        let mut gids: Vec<usize> = (0..ngroups).collect();
        rng.shuffle(&mut gids);
        for g in gids {
            if rng.chance(1, 8) {
                alive[g] = !alive[g]; // appear / vanish
            }
            if quiet || !alive[g] {
                continue;
            }
            let vol = match rng.below(8) {
                0 => base[g].saturating_mul(rng.range(5, 50) as u32).min(200_000), // burst
                1 => 1,
                2 => 0,
                _ => {
                    let b = base[g] as u64;
                    rng.range((b * 3 / 4).max(1), b * 5 / 4 + 1) as u32
                }
            };
            if vol == 0 {
                continue;
            }
            let singles = rng.below(4).min(vol as u64) as u32;
            // the volume is split between up to three spellings of the same group
            let mut rest = vol - singles;
            let parts = rng.range(1, 3);
            for j in 0..parts {
                let c = if j + 1 == parts { rest } else { rng.below(rest as u64 + 1) as u32 };
                rest -= c;
                if c > 0 {
                    ops.push(CgOp::Bulk(spell(rng, &groups[g]), c));
                }
            }
            for _ in 0..singles {
                let p = spell(rng, &groups[g]);
                ops.push(match rng.below(4) {
                    0 => CgOp::Adapt(p, rng.below(3) as u32),
                    1 => CgOp::One(p, 0xffff_ffff),
                    _ => CgOp::One(p, rng.next_u64() as u32),
                });
            }
            // an entry that yields one key twice (the documentation forbids it)
            if !groups[g].is_empty() && rng.chance(1, 12) {
                let mut p = groups[g].clone();
                p.push((p[0].0, 9));
                rng.shuffle(&mut p);
                ops.push(if rng.chance(1, 2) { CgOp::One(p, rng.next_u64() as u32) } else { CgOp::Bulk(p, rng.range(1, 5) as u32) });
            }
        }
        ops.push(CgOp::End);
    }
    (cfg, ops)
}

// ------------------------------------------------------------------------------------------------

enum Case {
    Na(u32),
    Fx(u32, u32),
    Rc(u32, u64, Vec<Vec<ObsK>>),
    Ub(u32),
    Cg(CgCfg, Vec<CgOp>),
    Rt(RtCfg, Vec<RtStep>),
    Dr(Vec<u64>, Vec<RngCallK>),
    /// rate bits (0 = the congress builder), sample size
    St(u32, u64),
}

impl Case {
    fn encode(&self) -> String {
        match self {
            Case::Na(r) => format!("na {r:08x}"),
            Case::Fx(r, w) => format!("fx {r:08x} {w:08x}"),
            Case::Rc(r, w, ms) => format!("rc {r:08x} {w:016x} {}", if ms.is_empty() { "-".to_string() } else { enc_metrics(ms, false) }),
            Case::Ub(r) => format!("ub {r:08x}"),
            Case::Cg(t, ops) => enc_cg(t, ops),
            Case::Rt(c, st) => enc_rt(c, st),
            Case::Dr(w, c) => format!("dr {} {}", if w.is_empty() { "-".to_string() } else { w.iter().map(|x| format!("{x:016x}")).collect::<Vec<_>>().join(",") }, enc_calls(c)),
            Case::St(r, n) => format!("st {r:08x} {n}"),
        }
    }
    fn decode(s: &str) -> Option<Case> {
        let p: Vec<&str> = s.split_whitespace().collect();
        let h32 = |x: &str| u32::from_str_radix(x, 16).ok();
        match *p.first()? {
            "na" if p.len() == 2 => Some(Case::Na(h32(p[1])?)),
            "fx" if p.len() == 3 => Some(Case::Fx(h32(p[1])?, h32(p[2])?)),
            "rc" if p.len() == 4 => Some(Case::Rc(h32(p[1])?, u64::from_str_radix(p[2], 16).ok()?, if p[3] == "-" { vec![] } else { dec_metrics(p[3])? })),
            "ub" if p.len() == 2 => Some(Case::Ub(h32(p[1])?)),
            "cg" => dec_cg(&p[1..]).map(|(t, o)| Case::Cg(t, o)),
            "rt" => dec_rt(&p[1..]).map(|(c, st)| Case::Rt(c, st)),
            "dr" if p.len() >= 2 => {
                let words = if p[1] == "-" { vec![] } else { p[1].split(',').map(|x| u64::from_str_radix(x, 16).ok()).collect::<Option<Vec<_>>>()? };
                let calls = p[2..]
                    .iter()
                    .map(|c| match *c {
                        "a" => Some(RngCallK::U32),
                        "b" => Some(RngCallK::U64),
                        "e" => Some(RngCallK::F32),
                        "d" => Some(RngCallK::F64),
                        _ => c.strip_prefix('f')?.parse().ok().map(RngCallK::Fill),
                    })
                    .collect::<Option<Vec<_>>>()?;
                Some(Case::Dr(words, calls))
            }
            "st" if p.len() == 3 => Some(Case::St(h32(p[1])?, p[2].parse().ok()?)),
            _ => None,
        }
    }
}

struct Pending {
    component: &'static str,
    case: String,
    request: String,
    answer: String,
}

/// runs one case: implementation + oracle; returns the model request/answer pair if any
fn run_case(c: &Case, rep: &mut Report, rng: &mut Rng, search_only: bool) -> Option<Pending> {
    let enc = c.encode();
    match c {
        Case::Na(rb) => {
            let rate = f32b(*rb);
            if !valid_rate(rate) || !hook_domain(rate) {
                rep.bump("skipped:na-outside-hook-domain");
                return None;
            }
            let (n, alpha) = match impl_na(rate) {
                Ok(x) => x,
                Err(p) => {
                    rep.oracle_failure("sampling:rate_to_n_alpha", &enc, &format!("panic:{p}"), "rate_to_n_alpha panicked");
                    return None;
                }
            };
            if !search_only {
                rep.case(&enc, alpha != 1.0);
                rep.bump(if recip_below_2_53(rate) { "na:1/rate<2^53" } else { "na:2^53<=1/rate<=2^63" });
                rep.bump(if alpha == 1.0 { "na:alpha=1" } else if alpha <= 0.0 { "na:alpha<=0" } else if alpha > 1.0 { "na:alpha>1" } else { "na:0<alpha<1" });
            }
            if let Some(what) = oracle_na(rate, n, alpha) {
                rep.oracle_failure("sampling:rate_to_n_alpha", &enc, &format!("{n} {}", f64_bits(alpha)), &what);
            }
            Some(Pending { component: "sampling/rate_to_n_alpha", case: enc.clone(), request: enc, answer: format!("{n} {}", f64_bits(alpha)) })
        }
        Case::Fx(rb, w) => {
            let rate = f32b(*rb);
            if !valid_rate(rate) {
                rep.bump("skipped:fx-invalid-rate");
                return None;
            }
            match impl_fx(rate, *w) {
                Err(p) => {
                    rep.oracle_failure("sampling:fixed_fraction", &enc, &format!("panic:{p}"), "FixedFractionSample::format panicked");
                    None
                }
                Ok((calls, plain, draws)) => {
                    if !search_only {
                        rep.case(&enc, rate < 1.0);
                        rep.bump(if calls.is_empty() { "fx:dropped" } else { "fx:emitted" });
                        if draws != 1 {
                            rep.bump("fx:draws!=1");
                        }
                    }
                    if let Some(what) = oracle_fx(rate, *w, &calls, plain) {
                        rep.oracle_failure("sampling:fixed_fraction", &enc, &format!("{calls:?}"), &what);
                    }
                    let answer = match calls.first() {
                        Some(r) => format!("emit {}", f32_bits(*r)),
                        None => "drop".into(),
                    };
                    Some(Pending { component: "sampling/fixed_fraction", case: enc.clone(), request: enc, answer })
                }
            }
        }
        Case::Rc(rb, w, ms) => {
            let rate = f32b(*rb);
            if !valid_rate(rate) {
                rep.bump("skipped:rc-invalid-rate");
                return None;
            }
            match impl_rc(rate, *w, ms) {
                Err(p) => {
                    rep.oracle_failure("sampling:sampled_emf", &enc, &format!("panic:{p}"), "SampledEmf::format_with_sample_rate panicked");
                    None
                }
                Ok((weight, per)) => {
                    if !search_only {
                        rep.case(&enc, per.iter().any(|c| !c.is_empty()) || weight > 1);
                        rep.bump(if weight == u64::MAX { "rc:weight=u64::MAX" } else if !recip_below_2_53(rate) { "rc:weight>=2^53" } else { "rc:weight<2^53" });
                        rep.bump_by("rc:counts entries", per.iter().map(|c| c.len() as u64).sum());
                    }
                    let show = |weight: u64, per: &[Vec<u64>]| {
                        let mut all = vec![vec![weight]];
                        all.extend(per.iter().cloned());
                        all.iter().map(|c| if c.is_empty() { ".".to_string() } else { c.iter().map(|x| x.to_string()).collect::<Vec<_>>().join(",") }).collect::<Vec<_>>().join("/")
                    };
                    if let Some(what) = oracle_rc(rate, ms, weight, &per) {
                        // shrink the metric list
                        let small = shrink_list(ms, |m| impl_rc(rate, *w, m).map(|(ww, pp)| oracle_rc(rate, m, ww, &pp).is_some()).unwrap_or(false));
                        let cc = Case::Rc(*rb, *w, small.clone());
                        let (ww, pp) = impl_rc(rate, *w, &small).unwrap_or((weight, per.clone()));
                        rep.oracle_failure("sampling:sampled_emf", &cc.encode(), &show(ww, &pp), &oracle_rc(rate, &small, ww, &pp).unwrap_or(what));
                    }
                    let mut mm = vec![vec![ObsK::S]];
                    mm.extend(ms.iter().cloned());
                    Some(Pending { component: "sampling/sampled_emf", case: enc, request: format!("rc {rb:08x} {w:016x} {}", enc_metrics(&mm, true)), answer: show(weight, &per) })
                }
            }
        }
        Case::Ub(rb) => {
            let rate = f32b(*rb);
            if !valid_rate(rate) {
                rep.bump("skipped:ub-invalid-rate");
                return None;
            }
            match run_ub(rate, rng) {
                Err(p) => rep.oracle_failure("sampling:unbiased", &enc, &format!("panic:{p}"), "SampledEmf::format_with_sample_rate panicked"),
                Ok(r) => {
                    if !search_only {
                        rep.case(&enc, true);
                        rep.bump("ub:bisections");
                    }
                    if let Some(what) = r {
                        rep.oracle_failure("sampling:unbiased", &enc, "-", &what);
                    }
                }
            }
            None
        }
        Case::Dr(words, calls) => match run_dr(words, calls) {
            Err(p) => {
                rep.oracle_failure("sampling:default-rng", &enc, &format!("panic:{p}"), "DefaultRng panicked");
                None
            }
            Ok((through, log, direct)) => {
                if !search_only {
                    rep.case(&enc, calls.iter().any(|c| matches!(c, RngCallK::U64 | RngCallK::F64)));
                    rep.bump_by("dr:calls through DefaultRng<scripted R>", calls.len() as u64);
                }
                if let Some(what) = oracle_dr(calls, &through, &log, &direct) {
                    let small = shrink_list(calls, |c| run_dr(words, c).map(|(t, l, d)| oracle_dr(c, &t, &l, &d).is_some()).unwrap_or(true));
                    let (t, l, d) = run_dr(words, &small).unwrap_or((through.clone(), log.clone(), direct.clone()));
                    rep.oracle_failure("sampling:default-rng", &Case::Dr(words.clone(), small.clone()).encode(), &t.join(" "), &oracle_dr(&small, &t, &l, &d).unwrap_or(what));
                }
                Some(Pending { component: "sampling/default-rng", case: enc.clone(), request: enc, answer: through.join(" ") })
            }
        },
        Case::St(rb, n) => {
            let pass = |n: u64| if *rb == 0 { stat_congress(n) } else { stat_pass(f32b(*rb), n) };
            let first = pass(*n);
            if !search_only {
                rep.case(&enc, true);
                rep.bump("st:statistical passes on the default RNG path (OS-seeded, independent of the seed)");
            }
            match first {
                Err(p) => rep.oracle_failure("sampling:default-rng-statistics", &enc, &format!("panic:{p}"), "the default sampling path panicked"),
                Ok(None) => {}
                Ok(Some(w1)) => {
                    // a bound with false-alarm probability 1e-9 was exceeded: repeat once with 10x the sample before reporting
                    rep.bump("st:first pass outside its bound, repeated with 10x the sample");
                    match pass(*n * 10) {
                        Ok(None) => rep.notes.push(format!("statistical stage: first pass of `{enc}` was outside its 1e-9 bound ({w1}) but the 10x repeat was inside")),
                        Ok(Some(w2)) => rep.oracle_failure("sampling:default-rng-statistics", &enc, &w1, &format!("{w2} [second pass, 10x sample; first pass: {w1}]")),
                        Err(p) => rep.oracle_failure("sampling:default-rng-statistics", &enc, &format!("panic:{p}"), "the default sampling path panicked"),
                    }
                }
            }
            None
        }
        Case::Rt(cfg, steps) => match run_rt(cfg, steps, 6) {
            Err(p) => {
                rep.oracle_failure("sampling:congress-clock", &enc, &format!("panic:{p}"), "CongressSample panicked");
                None
            }
            Ok(res) => {
                for d in &res.discards {
                    rep.bump(&format!("rt:discarded attempt ({d})"));
                }
                match res.done {
                    None => {
                        rep.bump("rt:gave up (6 attempts discarded for timing ambiguity; nothing judged)");
                        None
                    }
                    Some((request, answer, oracle, rollovers, entries, low)) => {
                        if !search_only {
                            rep.case(&enc, low > 0);
                            rep.bump("rt:samplers run under the real clock");
                            rep.bump_by("rt:roll-overs by the clock", rollovers);
                            rep.bump_by("rt:entries", entries);
                            rep.bump_by("rt:intervals with 1..15 entries", low);
                        }
                        if let Some(what) = oracle {
                            let failing = |st: &[RtStep]| matches!(run_rt(cfg, st, 3), Ok(RtResult { done: Some((_, _, Some(_), _, _, _)), .. }));
                            let small = shrink_list(steps, |st| failing(st));
                            let (what2, ans) = match run_rt(cfg, &small, 6) {
                                Ok(RtResult { done: Some((_, a, Some(w), _, _, _)), .. }) => (w, a),
                                _ => (what.clone(), answer.clone()),
                            };
                            rep.oracle_failure("sampling:congress-clock", &enc_rt(cfg, &small), &ans, &what2);
                        }
                        Some(Pending { component: "sampling/congress-clock", case: enc, request, answer })
                    }
                }
            }
        },
        Case::Cg(target, ops) => match run_cg(target, ops) {
            Err(p) => {
                rep.oracle_failure("sampling:congress", &enc, &format!("panic:{p}"), "CongressSample panicked");
                None
            }
            Ok(run) => {
                if !search_only {
                    rep.case(&enc, run.sampled_intervals > 0);
                    rep.bump_by("cg:intervals", ops.iter().filter(|o| **o == CgOp::End).count() as u64);
                    rep.bump_by("cg:intervals above target (sampling active)", run.sampled_intervals);
                    rep.bump_by("cg:single entries", ops.iter().filter(|o| matches!(o, CgOp::One(..) | CgOp::Adapt(..))).count() as u64);
                    rep.bump_by("cg:single entries at rate 1 (no draw taken)", run.draws_skipped_at_rate_one);
                    rep.bump(&format!("cg:ctor {}", match target.ctor { Ctor::Rng => "builder+build_with_rng", Ctor::Clock => "builder+build_with_rng, real clock path", Ctor::Interval(_) => "builder+interval(..)+build_with_rng", Ctor::Build => "builder+build (thread rng)", Ctor::Ext => "sample_by_congress_at_fixed_entries_per_second" }));
                    rep.bump(&format!("cg:validate_groups {} (effective {})", match target.validate { None => "default", Some(true) => "true", Some(false) => "false" }, target.effective_validate()));
                    rep.bump_by("cg:duplicate-key entries that panicked (validate on)", run.panics);
                    rep.bump_by("cg:entries yielding their pairs out of sorted order", run.reordered_entries);
                    rep.bump(&format!("cg:max groups {}", match run.max_groups { 0 => "0", 1 => "1", 2..=4 => "2-4", 5..=8 => "5-8", _ => "9+" }));
                }
                if let Some(what) = &run.oracle {
                    let small = shrink_list(ops, |o| run_cg(target, o).map(|r| r.oracle.is_some()).unwrap_or(true));
                    let (what2, ans) = match run_cg(target, &small) {
                        Ok(r) => (r.oracle.unwrap_or_else(|| what.clone()), r.answer),
                        Err(p) => (format!("panic: {p}"), "panic".into()),
                    };
                    rep.oracle_failure("sampling:congress", &enc_cg(target, &small), &ans, &what2);
                }
                Some(Pending { component: "sampling/congress", case: enc, request: run.request, answer: run.answer })
            }
        },
    }
}

fn neighbours(case: &str, rng: &mut Rng, n: usize) -> Vec<Case> {
    let mut out = vec![];
    let Some(c) = Case::decode(case) else { return out };
    for i in 0..n {
        let jitter = |r: u32, rng: &mut Rng| -> u32 {
            let d = rng.below(64) as u32;
            let x = if rng.chance(1, 2) { r.wrapping_add(d) } else { r.wrapping_sub(d) };
            if x == 0 || x > ONE { r } else { x }
        };
        out.push(match &c {
            Case::Na(r) => Case::Na(jitter(*r, rng)),
            Case::Fx(r, w) => Case::Fx(jitter(*r, rng), if i % 2 == 0 { *w } else { w.wrapping_add((rng.below(5) as u32) << 8).wrapping_sub(2 << 8) }),
            Case::Rc(r, w, ms) => {
                let rr = jitter(*r, rng);
                Case::Rc(rr, if i % 2 == 0 { *w } else { gen_word64(rng, f32b(rr)) }, ms.clone())
            }
            Case::Ub(r) => Case::Ub(jitter(*r, rng)),
            Case::Dr(w, c) => {
                let mut w2 = w.clone();
                if let Some(x) = w2.get_mut(i % w.len().max(1)) {
                    *x = rng.next_u64();
                }
                Case::Dr(w2, c.clone())
            }
            Case::St(r, n) => Case::St(*r, *n),
            Case::Rt(c, st) => {
                let mut o = st.clone();
                for step in o.iter_mut() {
                    if let RtStep::Entries(g, n) = step {
                        if rng.chance(1, 3) {
                            *step = RtStep::Entries(g.clone(), rng.range(1, (*n as u64 * 2).max(2)) as u32);
                        }
                    }
                }
                Case::Rt(c.clone(), o)
            }
            Case::Cg(t, ops) => {
                // perturb volumes / drop ops
                let mut o = ops.clone();
                for op in o.iter_mut() {
                    if let CgOp::Bulk(g, c) = op {
                        if rng.chance(1, 3) {
                            *op = CgOp::Bulk(g.clone(), (*c as u64 * rng.range(1, 4) / 2).max(1) as u32);
                        }
                    }
                }
                Case::Cg(t.clone(), o)
            }
        });
    }
    out
}

fn main() {
    quiet_panics();
    let args = Args::parse();
    let mut rep = Report::new(
        &args,
        "sampling",
        "case = one of na(rate) / fx(rate, draw) / rc(rate, draw, observation kinds) / ub(rate) / cg(target, history); non-trivial = \
         na: alpha != 1 (1/rate is not an integer); fx: rate < 1; rc: weight > 1 or some Counts entry; ub: always; \
         cg: at least one interval above target (rates actually computed); rt: at least one clock-ended interval with 1..15 entries; dr: a 64-bit call; st: always; distinct by case text",
    );
    let mut rng = Rng::new(args.seed);
    let mut cases: Vec<Case> = vec![];
    let thorough = args.thorough();
    if let Some(line) = args.replay_case() {
        let line = line.split(" ## ").next().unwrap_or("").to_string();
        cases.extend(Case::decode(&line));
    } else {
        for l in args.corpus_cases() {
            match Case::decode(&l) {
                Some(c) => cases.push(c),
                None => rep.notes.push(format!("corpus line not understood: {l}")),
            }
        }
        // --- st: statistics of the real default path (not derived from the seed) -----------------
        let n_st = if thorough { 200_000 } else { 20_000 };
        for r in [0.4f32, 0.3, 0.1, 0.7, 0.225] {
            cases.push(Case::St(r.to_bits(), n_st));
        }
        cases.push(Case::St(0, n_st));
        // --- dr: DefaultRng over a scripted inner generator ------------------------------------
        let n_dr = if thorough { 20_000 } else { 1_500 };
        for _ in 0..n_dr {
            let nw = rng.below(6);
            let words: Vec<u64> = (0..nw).map(|_| match rng.below(4) { 0 => u64::MAX, 1 => rng.next_u64() >> 32, 2 => rng.next_u64() << 32, _ => rng.next_u64() }).collect();
            let nc = rng.range(1, 8);
            let calls = (0..nc).map(|_| match rng.below(6) { 0 => RngCallK::U32, 1 | 2 => RngCallK::U64, 3 => RngCallK::Fill(rng.below(20) as usize), 4 => RngCallK::F32, _ => RngCallK::F64 }).collect();
            cases.push(Case::Dr(words, calls));
        }
        // --- na: structured rates -------------------------------------------------------------
        for k in 0..=63u32 {
            let p = (127 - k) << 23;
            for d in [-2i32, -1, 0, 1, 2] {
                let b = (p as i64 + d as i64) as u32;
                if b <= ONE { cases.push(Case::Na(b)); }
            }
        }
        let kmax = if thorough { 2_000_000 } else { 30_000 };
        for k in 1..=kmax {
            let b = (1.0f32 / k as f32).to_bits();
            for d in [-1i32, 0, 1] {
                let x = (b as i64 + d as i64) as u32;
                if x <= ONE { cases.push(Case::Na(x)); }
            }
        }
        let n_na = if thorough { 24_000_000 } else { 110_000 };
        for _ in 0..n_na {
            cases.push(Case::Na(gen_rate(&mut rng)));
        }
        // --- fx ------------------------------------------------------------------------------
        let n_fx = if thorough { 400_000 } else { 20_000 };
        for i in 0..n_fx {
            let rb = gen_rate(&mut rng);
            let rate = f32b(rb);
            let w = match i % 4 {
                0 => rng.next_u64() as u32,
                1 => {
                    // boundary: draw = floor(rate * 2^24) + {-1,0,1}
                    let base = ((rate as f64) * 16777216.0).floor() as i64 + rng.below(3) as i64 - 1;
                    (base.clamp(0, 0xff_ffff) as u32) << 8 | rng.below(256) as u32
                }
                2 => *rng.pick(&[0u32, 0xff, 0x100, 0xffff_ffff, 0xffff_ff00, 0x8000_0000]),
                _ => (rng.below(1 << 24) as u32) << 8,
            };
            cases.push(Case::Fx(rb, w));
        }
        // --- rc ------------------------------------------------------------------------------
        let n_rc = if thorough { 400_000 } else { 25_000 };
        for _ in 0..n_rc {
            let rb = gen_rate(&mut rng);
            let w = gen_word64(&mut rng, f32b(rb));
            cases.push(Case::Rc(rb, w, gen_metrics(&mut rng)));
        }
        // --- ub ------------------------------------------------------------------------------
        let n_ub = if thorough { 20_000 } else { 1_200 };
        for _ in 0..n_ub {
            cases.push(Case::Ub(gen_rate(&mut rng)));
        }
        // --- rt (real clock) -------------------------------------------------------------------
        let n_rt = if thorough { 360 } else { 18 };
        for i in 0..n_rt {
            let (c, st) = gen_rt(&mut rng, i);
            cases.push(Case::Rt(c, st));
        }
        // --- cg ------------------------------------------------------------------------------
        let n_cg = if thorough { 30_000 } else { 1_500 };
        for i in 0..n_cg {
            let (t, ops) = gen_cg(&mut rng, i % 7 == 0);
            cases.push(Case::Cg(t, ops));
        }
    }

    // the implementation side is single-threaded per shard; shard the case list over threads
    let threads: usize = if thorough { 12 } else { 3 };
    let mut shards: Vec<Vec<Case>> = (0..threads).map(|_| vec![]).collect();
    for (i, c) in cases.into_iter().enumerate() {
        shards[i % threads].push(c);
    }
    let forks: Vec<Rng> = (0..threads).map(|i| rng.fork(i as u64)).collect();
    let driver = args.driver.clone();
    let results: Vec<(Report, bool)> = std::thread::scope(|sc| {
        let handles: Vec<_> = shards
            .into_iter()
            .zip(forks)
            .map(|(shard, mut frng)| {
                let args = &args;
                let driver = driver.clone();
                sc.spawn(move || {
                    quiet_panics();
                    let mut rep = Report::new(args, "sampling", "");
                    let mut pend: Vec<Pending> = vec![];
                    let mut driver_ok = true;
                    let flush = |pend: &mut Vec<Pending>, rep: &mut Report, driver_ok: &mut bool| {
                        if pend.is_empty() {
                            return;
                        }
                        let reqs: Vec<String> = pend.iter().map(|p| p.request.clone()).collect();
                        match run_driver(&driver, "sampling", &reqs) {
                            Some(replies) => {
                                for (p, reply) in pend.iter().zip(replies.iter()) {
                                    let reply = if p.component == "sampling/congress" { canon_model_cg(reply) } else if p.component == "sampling/congress-clock" { canon_model_rt(reply) } else { reply.clone() };
                                    if p.answer != reply {
                                        rep.disagreement(p.component, &format!("{} ## model-request: {}", p.case, p.request), &p.answer, &reply);
                                    }
                                }
                                rep.bump_by("model requests", reqs.len() as u64);
                            }
                            None => *driver_ok = false,
                        }
                        pend.clear();
                    };
                    for (i, c) in shard.iter().enumerate() {
                        if let Some(p) = run_case(c, &mut rep, &mut frng, false) {
                            if i % 40_000 == 7 {
                                rep.sample(json!({"case": p.case, "impl": p.answer}));
                            }
                            pend.push(p);
                        }
                        if pend.len() >= 500_000 {
                            flush(&mut pend, &mut rep, &mut driver_ok);
                        }
                    }
                    flush(&mut pend, &mut rep, &mut driver_ok);
                    (rep, driver_ok)
                })
            })
            .collect();
        handles.into_iter().map(|h| h.join().expect("shard")).collect()
    });
    for (r, ok) in results {
        rep.evaluations += r.evaluations;
        rep.nontrivial.extend(r.nontrivial);
        for s in r.samples { rep.sample(s); }
        for (k, v) in r.distribution { rep.bump_by(&k, v); }
        for f in r.oracle_failures { rep.oracle_failure(&f.key, &f.case, &f.impl_out, &f.what); }
        for d in r.disagreements { rep.disagreement(&d.component, &d.case, &d.impl_out, &d.model_out); }
        if !ok { rep.driver_available = false; }
    }

    // thorough: the (n, alpha) oracle over EVERY f32 rate in [2^-63, 1] (model-independent, exhaustive)
    if thorough && args.replay.is_none() {
        let lo = 0x2000_0000u32;
        let total = (ONE - lo + 1) as u64;
        let t = 14u64;
        let fails: Vec<(u32, u64, f64, String)> = std::thread::scope(|sc| {
            let hs: Vec<_> = (0..t)
                .map(|i| {
                    sc.spawn(move || {
                        let a = lo as u64 + total * i / t;
                        let b = lo as u64 + total * (i + 1) / t;
                        let mut out = vec![];
                        for bits in a..b {
                            let rate = f32b(bits as u32);
                            let (n, alpha) = verif_rate_to_n_alpha(rate);
                            if let Some(w) = oracle_na(rate, n, alpha) {
                                if out.len() < 3 { out.push((bits as u32, n, alpha, w)); }
                            }
                        }
                        out
                    })
                })
                .collect();
            hs.into_iter().flat_map(|h| h.join().expect("sweep")).collect()
        });
        rep.evaluations += total;
        rep.bump_by("na:exhaustive oracle sweep over all f32 in [2^-63,1]", total);
        rep.notes.push(format!("exhaustive oracle sweep: {total} rates (every f32 in [2^-63, 1]) checked against the exact floor/ceil/expectation oracle"));
        for (b, n, alpha, w) in fails {
            rep.oracle_failure("sampling:rate_to_n_alpha", &format!("na {b:08x}"), &format!("{n} {}", f64_bits(alpha)), &w);
        }
    }

    // shrink the first congress disagreement (re-running implementation and model on every candidate)
    if args.replay.is_none() {
        if let Some(i) = rep.disagreements.iter().position(|d| d.component == "sampling/congress") {
            let line = rep.disagreements[i].case.split(" ## ").next().unwrap_or("").to_string();
            if let Some(Case::Cg(target, ops)) = Case::decode(&line) {
                let differs = |o: &[CgOp]| -> Option<(String, String, String)> {
                    let r = run_cg(&target, o).ok()?;
                    let reply = run_driver(&args.driver, "sampling", &[r.request.clone()])?;
                    let m = canon_model_cg(&reply[0]);
                    if m != r.answer { Some((r.request, r.answer, m)) } else { None }
                };
                let small = shrink_list(&ops, |o| differs(o).is_some());
                if let Some((req, a, m)) = differs(&small) {
                    let d = &mut rep.disagreements[i];
                    d.case = format!("{} ## model-request: {}", enc_cg(&target, &small), req);
                    d.impl_out = a;
                    d.model_out = m;
                    rep.disagreements.swap(0, i);
                }
            }
        }
    }

    // disagreement without an oracle failure: targeted oracle-only search around the disagreeing cases
    if !rep.disagreements.is_empty() && rep.oracle_failures.is_empty() && args.replay.is_none() {
        let seeds: Vec<String> = rep.disagreements.iter().take(4).map(|d| d.case.split(" ## ").next().unwrap_or("").to_string()).collect();
        let mut srep = Report::new(&args, "sampling", "");
        let mut srng = rng.fork(0x5ea7c4);
        // (a congress history costs ~10^4 times more than a rate: far fewer neighbours)
        let per = if seeds.iter().any(|s| s.starts_with("cg") || s.starts_with("rt")) { 300 } else { 400_000 } / seeds.len().max(1);
        for s in &seeds {
            for c in neighbours(s, &mut srng, per) {
                run_case(&c, &mut srep, &mut srng, true);
                rep.search_cases += 1;
                if !srep.oracle_failures.is_empty() {
                    break;
                }
            }
        }
        if let Some(f) = srep.oracle_failures.first() {
            rep.search_found = true;
            rep.oracle_failure(&f.key, &f.case, &f.impl_out, &f.what);
        }
    }
    rep.write(&args);
}
