//! Engine `keepalive` (C06, C13): the real `AppendAndCloseOnDrop` over a real `#[metrics]` struct with two
//! `Slot` and two `LazySlot` fields and a recording sink.
//!
//! Stage 1, T-step (single thread).  Case line: `<slots> | <op> <op> …` (the protocol of
//! `lean/Driver/KeepAlive.lean`; `<slots>` is always `E<a>,E<b>,L,L`: the struct below).  After every
//! operation the number of entries the sink has received is compared with
//!   (i)  the property oracle `Oracle` below (written from the statements of C06 / C13: the entry is
//!        appended exactly when the owner and every handle are gone and (no flush guard is left or a
//!        force-flush guard has been dropped); its fields are the last values written; a slot's fields are
//!        present iff its guard was dropped before the entry was closed; `open` succeeds once; …), and
//!   (ii) the Lean model (`KeepAlive.step` run by the driver on the same operation list).
//!
//! The owner is ended in every public way: `dref` (plain drop / a handle), `fin:<k>:<v>` (the finishers of
//! `metrique::instrument::Instrumented`, see `finish_owner`) — all with the semantics of a drop —, and is built by
//! either public constructor (`ctor:<k>`, see `build_owner`).
//!
//! Stage 2, T-trace (real threads).  Case line: `trace <seed> | <setup op> … ; <role> <role> …`: after a
//! single-threaded setup every remaining droppable object is dropped on a thread of its own, released
//! together by a barrier, with yields/sleeps injected at the perturbation points 10–13 of `/repo`.  Every
//! thread logs `begin`/`end` around its drop, the sink logs the append, all with one global sequence
//! counter.  The history is judged by `trace_oracle` (Rust, from the property) and by the Lean
//! specification predicate `KeepAlive.Spec.accept` (driver request `trace …`).

use metrique::unit_of_work::metrics;
use metrique::writer::EntrySink;
use metrique::{
    AppendAndCloseOnDrop, AppendAndCloseOnDropHandle, Counter, FlushGuard, ForceFlushGuard, LazySlot, OnParentDrop,
    RootMetric, Slot, SlotGuard,
};
use metrique_writer::test_util::to_test_entry;
use std::future::Future;
use std::pin::Pin;
use std::sync::atomic::{AtomicU64, Ordering};
use std::sync::{Arc, Mutex};
use std::task::{Context, Poll, Waker};
use verif_harness::*;

// ------------------------------------------------------------------------------------------------
// the unit of work under test

/// the slot value: a number whose `close()` panics when `bomb` is armed (the documented "the guard panics, so its
/// fields are dropped from your entry" case); the panic carries the harness's `Contained` payload
#[derive(Default)]
struct Fused {
    v: u64,
    bomb: bool,
    /// `close()` parks here until the harness lets it go on (a slow / blocking user `close()`)
    gate: Option<Arc<CloseGate>>,
}

/// per-history time limit (seconds); `VERIF_CASE_TIMEOUT` overrides the default of 20 (a history takes milliseconds)
fn case_timeout() -> std::time::Duration {
    static T: std::sync::OnceLock<u64> = std::sync::OnceLock::new();
    std::time::Duration::from_secs(*T.get_or_init(|| std::env::var("VERIF_CASE_TIMEOUT").ok().and_then(|v| v.parse().ok()).filter(|v| *v > 0).unwrap_or(20)))
}

static UNPARKED: AtomicU64 = AtomicU64::new(0);

/// how long to wait for a gated `close()` to be entered: half the case time limit the first time; once a `close()` was
/// never entered (a defect: the guard's drop does not close its value) later waits are short, so that the run stays fast
fn gate_wait() -> std::time::Duration {
    match UNPARKED.load(Ordering::Relaxed) {
        0 => case_timeout() / 2,
        1..=3 => std::time::Duration::from_secs(1),
        _ => std::time::Duration::from_millis(5),
    }
}

/// (the closing thread is inside `close()`, it may go on)
#[derive(Default)]
struct CloseGate {
    st: Mutex<(bool, bool)>,
    cv: std::sync::Condvar,
}

impl CloseGate {
    fn wait_reached(&self, max: std::time::Duration) -> bool {
        let st = self.st.lock().unwrap();
        let (st, _) = self.cv.wait_timeout_while(st, max, |s| !s.0).unwrap();
        if !st.0 {
            UNPARKED.fetch_add(1, Ordering::Relaxed);
        }
        st.0
    }
    fn release(&self) {
        self.st.lock().unwrap().1 = true;
        self.cv.notify_all();
    }
}

impl metrique::CloseValue for Fused {
    type Closed = u64;
    fn close(self) -> u64 {
        if let Some(g) = &self.gate {
            let mut st = g.st.lock().unwrap();
            st.0 = true;
            g.cv.notify_all();
            // (bounded, so that a harness error cannot hang the run)
            let _ = g.cv.wait_timeout_while(st, std::time::Duration::from_secs(20), |s| !s.1).unwrap();
        }
        if self.bomb {
            std::panic::panic_any(Contained)
        }
        self.v
    }
}

#[metrics(subfield_owned)]
#[derive(Default)]
struct Child {
    val: Fused,
}

fn child(v: u64) -> Child {
    Child { val: Fused { v, bomb: false, gate: None } }
}

#[metrics]
struct Uow {
    plain: u64,
    hits: Counter,
    #[metrics(flatten, prefix = "a_")]
    a: Slot<Child>,
    #[metrics(flatten, prefix = "b_")]
    b: Slot<Child>,
    #[metrics(flatten, prefix = "c_")]
    c: LazySlot<Child>,
    #[metrics(flatten, prefix = "d_")]
    d: LazySlot<Child>,
}

const NSLOTS: usize = 4;
const SLOT_KEYS: [&str; NSLOTS] = ["a_val", "b_val", "c_val", "d_val"];

#[derive(Clone, Debug, PartialEq)]
struct Rec {
    plain: u64,
    hits: u64,
    slots: [Option<u64>; NSLOTS],
    /// sequence number of the append (T-trace)
    seq: u64,
    extra_keys: usize,
}

impl Rec {
    fn show(&self) -> String {
        format!(
            "{}:{}:{}",
            self.plain,
            self.hits,
            self.slots.iter().map(|s| s.map(|v| v.to_string()).unwrap_or("n".into())).collect::<Vec<_>>().join(",")
        )
    }
}

#[derive(Clone, Default)]
struct RecSink {
    recs: Arc<Mutex<Vec<Rec>>>,
    clock: Arc<AtomicU64>,
    /// T-trace: the shared history (observations in the order they were made)
    hist: Option<Arc<Mutex<Vec<String>>>>,
}

impl RecSink {
    fn len(&self) -> usize {
        self.recs.lock().unwrap().len()
    }
    fn all(&self) -> Vec<Rec> {
        self.recs.lock().unwrap().clone()
    }
}

impl EntrySink<RootMetric<Uow>> for RecSink {
    fn append(&self, entry: RootMetric<Uow>) {
        let seq = self.clock.fetch_add(1, Ordering::SeqCst);
        let t = to_test_entry(&entry);
        let get = |k: &str| t.metrics.get(k).map(|m| m.as_u64());
        let mut slots = [None; NSLOTS];
        for (i, k) in SLOT_KEYS.iter().enumerate() {
            slots[i] = get(k);
        }
        let known = 2 + slots.iter().filter(|s| s.is_some()).count();
        let rec = Rec {
            plain: get("plain").unwrap_or(u64::MAX),
            hits: get("hits").unwrap_or(u64::MAX),
            slots,
            seq,
            extra_keys: (t.metrics.len() + t.values.len()).saturating_sub(known),
        };
        if let Some(h) = &self.hist {
            h.lock().unwrap().push(format!("app:{}", rec.show()));
        }
        self.recs.lock().unwrap().push(rec);
    }
    fn flush_async(&self) -> metrique::writer::sink::FlushWait {
        metrique::writer::sink::FlushWait::ready()
    }
}

type Owner = AppendAndCloseOnDrop<Uow, RecSink>;
type Handle = AppendAndCloseOnDropHandle<Uow, RecSink>;

// ------------------------------------------------------------------------------------------------
// operations

#[derive(Clone, Copy, Debug, PartialEq)]
enum Op {
    Fg,
    Dg,
    Mut(u64),
    Hit(u64),
    Hnd,
    Cl,
    Dref,
    /// finish the (direct) owner through one of the public finishers, see `finish_owner`; the `u64` is the
    /// value the mutating finishers write to `plain` on the way
    Fin(u8, u64),
    /// construct the owner with the k-th constructor (only valid as the very first operation)
    Ctor(u8),
    /// WHERE drops / polls run from now on (only valid before the first real operation): environment
    /// (`ENV_NAMES`) and which operations it applies to (0 owner-ending ops, 1 guard drops incl. free flush /
    /// force-flush guards, 2 `wait_for_data` polls, 3 all of them)
    /// third component: how drop operations of the selected classes release their object (`PANIC_NAMES`):
    /// 0 plain drop, 1–3 dropped by a contained unwinding panic
    Env(u8, u8, u8),
    Dfg,
    Ddg,
    Open(usize, bool, u64), // slot, wait?, initial value (lazy slots)
    Delay(usize),
    Wb(usize),
    Wp,
    Wc,
    Gm(usize, u64),
    Gd(usize),
    Gc(usize),
    /// drop slot guard `i` while its value's `close()` panics (contained): the sender goes away without sending
    Gdp(usize),
    /// gated close: slot guard `i` is dropped on a thread of its own whose `close()` parks; meanwhile the owner, every
    /// handle and every free flush guard are dropped here; then `close()` goes on.  For the property this is
    /// `dref… dfg… gd:i` (the guard's drop finishes last; the flush guard it holds is released only after its send).
    Gdg(usize),
    /// replace slot field `i` by a fresh `Slot::new(v)` / `LazySlot::default()`; its guard, if alive, becomes the newest orphan
    Rep(usize, u64),
    /// `delay_flush(free flush guard)` on / mutate through / drop / drop-with-panicking-close the newest orphan guard
    Odelay,
    Ogm(u64),
    Ogd,
    Ogdp,
}

impl Op {
    fn enc(&self) -> String {
        match *self {
            Op::Fg => "fg".into(),
            Op::Dg => "dg".into(),
            Op::Mut(v) => format!("mut:{v}"),
            Op::Hit(v) => format!("hit:{v}"),
            Op::Hnd => "hnd".into(),
            Op::Cl => "cl".into(),
            Op::Dref => "dref".into(),
            Op::Fin(k, v) => format!("fin:{k}:{v}"),
            Op::Ctor(k) => format!("ctor:{k}"),
            Op::Env(e, w, 0) => format!("env:{e}:{w}"),
            Op::Env(e, w, p) => format!("env:{e}:{w}:{p}"),
            Op::Dfg => "dfg".into(),
            Op::Ddg => "ddg".into(),
            Op::Open(i, w, v) => format!("open:{i}:{}:{v}", if w { "w" } else { "d" }),
            Op::Delay(i) => format!("delay:{i}"),
            Op::Wb(i) => format!("wb:{i}"),
            Op::Wp => "wp".into(),
            Op::Wc => "wc".into(),
            Op::Gm(i, v) => format!("gm:{i}:{v}"),
            Op::Gd(i) => format!("gd:{i}"),
            Op::Gc(i) => format!("gc:{i}"),
            Op::Gdp(i) => format!("gdp:{i}"),
            Op::Gdg(i) => format!("gdg:{i}"),
            Op::Rep(i, v) => format!("rep:{i}:{v}"),
            Op::Odelay => "odelay".into(),
            Op::Ogm(v) => format!("ogm:{v}"),
            Op::Ogd => "ogd".into(),
            Op::Ogdp => "ogdp".into(),
        }
    }
    fn dec(s: &str) -> Option<Op> {
        let f: Vec<&str> = s.split(':').collect();
        let n = |k: usize| -> Option<u64> { f.get(k)?.parse().ok() };
        Some(match (f[0], f.len()) {
            ("fg", 1) => Op::Fg,
            ("dg", 1) => Op::Dg,
            ("mut", 2) => Op::Mut(n(1)?),
            ("hit", 2) => Op::Hit(n(1)?),
            ("hnd", 1) => Op::Hnd,
            ("cl", 1) => Op::Cl,
            ("dref", 1) => Op::Dref,
            ("fin", 3) => Op::Fin(n(1)? as u8, n(2)?),
            ("ctor", 2) => Op::Ctor(n(1)? as u8),
            ("env", 3) => Op::Env(n(1)? as u8, n(2)? as u8, 0),
            ("env", 4) => Op::Env(n(1)? as u8, n(2)? as u8, n(3)? as u8),
            ("dfg", 1) => Op::Dfg,
            ("ddg", 1) => Op::Ddg,
            ("open", 4) => Op::Open(n(1)? as usize, f[2] == "w", n(3)?),
            ("delay", 2) => Op::Delay(n(1)? as usize),
            ("wb", 2) => Op::Wb(n(1)? as usize),
            ("wp", 1) => Op::Wp,
            ("wc", 1) => Op::Wc,
            ("gm", 3) => Op::Gm(n(1)? as usize, n(2)?),
            ("gd", 2) => Op::Gd(n(1)? as usize),
            ("gc", 2) => Op::Gc(n(1)? as usize),
            ("gdp", 2) => Op::Gdp(n(1)? as usize),
            ("gdg", 2) => Op::Gdg(n(1)? as usize),
            ("rep", 3) => Op::Rep(n(1)? as usize, n(2)?),
            ("odelay", 1) => Op::Odelay,
            ("ogm", 2) => Op::Ogm(n(1)?),
            ("ogd", 1) => Op::Ogd,
            ("ogdp", 1) => Op::Ogdp,
            _ => return None,
        })
    }
}

/// What exists, as far as validity of the next operation is concerned (no semantics: just which
/// Rust values the harness is holding).
#[derive(Clone, Debug, Default, PartialEq)]
struct Shadow {
    owner: bool,
    handles: usize,
    fgs: usize,
    dgs: usize,
    guards: [bool; NSLOTS],
    fut: bool,
    // totals, for the enumeration caps
    fg_made: usize,
    dg_made: usize,
    cl_made: usize,
    /// some operation has been executed (constructors are only meaningful before)
    started: bool,
    /// orphan guards alive
    orphans: usize,
}

impl Shadow {
    fn new() -> Shadow {
        Shadow { owner: true, ..Default::default() }
    }
    fn valid(&self, op: &Op) -> bool {
        let own = self.owner && !self.fut;
        match *op {
            Op::Fg | Op::Dg | Op::Mut(_) | Op::Hnd => own,
            Op::Hit(_) | Op::Dref => own || self.handles > 0,
            Op::Fin(k, _) => own && (k as usize) < N_FINISHERS,
            Op::Ctor(k) => !self.started && (k as usize) < N_CTORS,
            Op::Env(e, w, p) => !self.started && (e as usize) < N_ENVS && w < 4 && (p as usize) < N_PANICS,
            Op::Cl => self.handles > 0,
            Op::Dfg => self.fgs > 0,
            Op::Ddg => self.dgs > 0,
            Op::Open(i, w, _) => own && i < NSLOTS && (!w || self.fgs > 0),
            Op::Delay(i) => i < NSLOTS && self.guards[i] && self.fgs > 0,
            Op::Wb(i) => own && i < 2,
            Op::Wp | Op::Wc => self.fut,
            Op::Gm(i, _) | Op::Gd(i) | Op::Gc(i) | Op::Gdp(i) => i < NSLOTS && self.guards[i],
            Op::Gdg(i) => i < NSLOTS && self.guards[i] && !self.fut,
            Op::Rep(i, _) => own && i < NSLOTS,
            Op::Odelay => self.orphans > 0 && self.fgs > 0,
            Op::Ogm(_) | Op::Ogd | Op::Ogdp => self.orphans > 0,
        }
    }
    /// `open_ok`: whether an `open` returned a guard, `ready`: whether a poll returned `Ready`
    fn apply(&mut self, op: &Op, open_ok: bool, ready: bool) {
        self.started = !matches!(op, Op::Ctor(_) | Op::Env(..));
        match *op {
            Op::Fin(..) => self.owner = false,
            Op::Ctor(_) | Op::Env(..) => {}
            Op::Fg => {
                self.fgs += 1;
                self.fg_made += 1
            }
            Op::Dg => {
                self.dgs += 1;
                self.dg_made += 1
            }
            Op::Hnd => {
                self.owner = false;
                self.handles = 1
            }
            Op::Cl => {
                self.handles += 1;
                self.cl_made += 1
            }
            Op::Dref => {
                if self.owner {
                    self.owner = false
                } else {
                    self.handles -= 1
                }
            }
            Op::Dfg => self.fgs -= 1,
            Op::Ddg => self.dgs -= 1,
            Op::Open(i, w, _) => {
                if w {
                    self.fgs -= 1
                }
                if open_ok {
                    self.guards[i] = true
                }
            }
            Op::Delay(_) => self.fgs -= 1,
            Op::Wb(_) | Op::Wp => self.fut = !ready,
            Op::Wc => self.fut = false,
            Op::Gd(i) | Op::Gdp(i) => self.guards[i] = false,
            Op::Gdg(i) => {
                self.guards[i] = false;
                self.owner = false;
                self.handles = 0;
                self.fgs = 0
            }
            Op::Rep(i, _) => {
                if self.guards[i] {
                    self.guards[i] = false;
                    self.orphans += 1
                }
            }
            Op::Odelay => self.fgs -= 1,
            Op::Ogd | Op::Ogdp => self.orphans -= 1,
            Op::Mut(_) | Op::Hit(_) | Op::Gm(..) | Op::Gc(_) | Op::Ogm(_) => {}
        }
    }
}

// ------------------------------------------------------------------------------------------------
// the property oracle (sequential reading of C06 / C13; independent of the Lean model)

#[derive(Clone, Debug)]
struct Oracle {
    refs: usize,          // owner + handles not yet dropped
    fg_total: usize,      // flush guards not yet dropped (free, or inside a live slot guard)
    forced: bool,         // some force-flush guard has been dropped
    plain: u64,
    hits: u64,
    opened: [bool; NSLOTS],
    gval: [u64; NSLOTS],
    gwait: [bool; NSLOTS],
    gdropped: [bool; NSLOTS],
    /// the guard's drop panicked in `close()`: it went away without handing a value back
    gfailed: [bool; NSLOTS],
    /// wait flags of the orphan guards alive (guards whose slot field was replaced), oldest first
    orphans: Vec<bool>,
    init: [u64; 2],
    appended: Option<Rec>,
}

impl Oracle {
    /// answer of a `wait_for_data` poll on slot `i`
    fn wait_answer(&self, i: usize) -> String {
        if self.gdropped[i] {
            format!("R{}", self.gval[i])
        } else if self.gfailed[i] {
            "Rn".into()
        } else {
            "P".into()
        }
    }

    fn new(init: [u64; 2]) -> Oracle {
        Oracle {
            refs: 1,
            fg_total: 0,
            forced: false,
            plain: 0,
            hits: 0,
            opened: [false; NSLOTS],
            gval: [0; NSLOTS],
            gwait: [false; NSLOTS],
            gdropped: [false; NSLOTS],
            gfailed: [false; NSLOTS],
            orphans: vec![],
            init,
            appended: None,
        }
    }
    /// expected result token of the op (before the append check)
    fn step(&mut self, op: &Op) -> String {
        let mut res = "-".to_string();
        match *op {
            Op::Fg => self.fg_total += 1,
            Op::Dg | Op::Hnd => {}
            Op::Mut(v) => self.plain = v,
            Op::Hit(v) => self.hits = v,
            Op::Cl => self.refs += 1,
            Op::Dref => self.refs -= 1,
            // every finisher is, for the property, "the owner is dropped" (the mutating ones write `plain` first)
            Op::Fin(k, v) => {
                if finisher_mutates(k) {
                    self.plain = v
                }
                self.refs -= 1
            }
            // the property does not depend on where a drop runs
            Op::Ctor(_) | Op::Env(..) => {}
            Op::Dfg => self.fg_total -= 1,
            Op::Ddg => self.forced = true,
            Op::Open(i, w, v0) => {
                if self.opened[i] {
                    res = "none".into();
                    if w {
                        self.fg_total -= 1 // the guard inside the rejected mode argument is dropped
                    }
                } else {
                    res = "some".into();
                    self.opened[i] = true;
                    self.gval[i] = if i < 2 { self.init[i] } else { v0 };
                    self.gwait[i] = w;
                }
            }
            Op::Delay(i) => {
                if self.gwait[i] {
                    self.fg_total -= 1 // the previous flush guard is dropped
                }
                self.gwait[i] = true;
            }
            Op::Wb(i) => res = self.wait_answer(i),
            Op::Wp => res = "?".into(), // filled by the caller (needs the slot the future is on)
            Op::Wc => {}
            Op::Gm(i, v) => self.gval[i] = v,
            Op::Gd(i) => {
                self.gdropped[i] = true;
                if self.gwait[i] {
                    self.fg_total -= 1
                }
            }
            Op::Gc(_) => res = if self.appended.is_some() { "t".into() } else { "f".into() },
            // the guard is gone — a drop is a drop: its flush guard is released — but no value comes back; the rest of
            // the entry (siblings included) is unaffected
            Op::Gdp(i) => {
                self.gfailed[i] = true;
                if self.gwait[i] {
                    self.fg_total -= 1
                }
            }
            Op::Gdg(_) => unreachable!("judged through its expansion, see `run_case_here`"),
            // the field is a fresh slot again; whatever the old slot had received is gone with it; a guard that is
            // still alive lives on as an orphan and keeps the flush guard it holds
            Op::Rep(i, v) => {
                if self.opened[i] && !self.gdropped[i] && !self.gfailed[i] {
                    self.orphans.push(self.gwait[i]);
                }
                self.opened[i] = false;
                self.gdropped[i] = false;
                self.gfailed[i] = false;
                self.gwait[i] = false;
                if i < 2 {
                    self.init[i] = v
                }
            }
            // `delay_flush` on an orphan stores the flush guard like on any slot guard: it delays the append until the
            // orphan is dropped
            Op::Odelay => {
                let w = self.orphans.last_mut().unwrap();
                if *w {
                    self.fg_total -= 1
                }
                *w = true;
            }
            Op::Ogm(_) => {}
            Op::Ogd | Op::Ogdp => {
                if self.orphans.pop().unwrap() {
                    self.fg_total -= 1
                }
            }
        }
        // C06: appended exactly when the owner and all handles are gone and (all flush guards are gone or a
        // force-flush guard has been dropped); C13: a slot is present iff its guard was dropped by then.
        if self.appended.is_none() && self.refs == 0 && (self.fg_total == 0 || self.forced) {
            let mut slots = [None; NSLOTS];
            for i in 0..NSLOTS {
                if self.opened[i] && self.gdropped[i] {
                    slots[i] = Some(self.gval[i]);
                }
            }
            self.appended = Some(Rec { plain: self.plain, hits: self.hits, slots, seq: 0, extra_keys: 0 });
        }
        res
    }
}

// ------------------------------------------------------------------------------------------------
// running the implementation

type WaitFut = Pin<Box<dyn Future<Output = Option<u64>>>>;

struct World {
    sink: RecSink,
    owner: Option<Owner>,
    handles: Vec<Handle>,
    fgs: Vec<FlushGuard>,
    dgs: Vec<Pin<Box<ForceFlushGuard>>>,
    guards: [Option<SlotGuard<Child>>; NSLOTS],
    orphans: Vec<SlotGuard<Child>>,
    fut: Option<(usize, WaitFut)>,
    /// (environment, which operations run in it, how drops release), see `Op::Env`
    env: (u8, u8, u8),
}

fn new_world(init: [u64; 2], ctor: u8) -> World {
    new_world_with(init, RecSink::default(), ctor)
}

/// the constructor a history asks for: its first operation, if that is a `ctor:k`
fn ctor_of(ops: &[Op]) -> u8 {
    for op in ops {
        match op {
            Op::Ctor(k) if (*k as usize) < N_CTORS => return *k,
            Op::Env(..) => continue,
            _ => break,
        }
    }
    0
}

const N_CTORS: usize = 2;

/// Every public way of wrapping an entry for append-on-drop: the `#[metrics]`-generated
/// `Uow::append_on_drop(sink)` and the free function `metrique::append_and_close(entry, sink)`.
/// (There is no `append_on_drop_default` in this version; `RootEntry::new(entry.close())` appended by hand
/// has no owner and is outside C06.)
fn build_owner(init: [u64; 2], sink: RecSink, ctor: u8) -> Owner {
    let uow = Uow {
        plain: 0,
        hits: Counter::new(0),
        a: Slot::new(child(init[0])),
        b: Slot::new(child(init[1])),
        c: LazySlot::default(),
        d: LazySlot::default(),
    };
    match ctor {
        0 => uow.append_on_drop(sink),
        _ => metrique::append_and_close(uow, sink),
    }
}

const N_FINISHERS: usize = 8;

fn finisher_mutates(k: u8) -> bool {
    k >= 5
}

/// Every public way of finishing a directly owned `AppendAndCloseOnDrop` (besides turning it into handles).
/// For C06 each of them is "the owner is dropped": the entry must be appended exactly when a plain `drop`
/// would append it.  `AppendAndCloseOnDrop` itself has no consuming method other than `handle()`; everything
/// else goes through `metrique::instrument::Instrumented` (all its public methods appear below).
/// `discard_metrics` "discards" its `U`, which for `U = AppendAndCloseOnDrop` means dropping the guard, i.e.
/// the entry IS appended (there is no public way to detach an entry from its guard without appending it).
fn finish_owner(o: Owner, k: u8, v: u64) {
    use metrique::instrument::Instrumented;
    match k {
        0 => drop(o),
        1 => Instrumented::from_parts((), o).emit(),
        2 => Instrumented::from_parts((), o).discard_metrics(),
        3 => {
            let (_, m) = Instrumented::from_parts((), o).into_parts();
            drop(m)
        }
        4 => {
            let mut target: Option<Owner> = None;
            Instrumented::from_parts((), o).split_metrics_to(&mut target);
            drop(target)
        }
        5 => {
            let r: Result<u8, u8> = Instrumented::instrument(o, |m| {
                m.plain = v.wrapping_add(1);
                Ok(1)
            })
            .on_error(|_, m| m.plain = 999_999)
            .on_success(|_, m| m.plain = v)
            .emit();
            assert_eq!(r, Ok(1));
        }
        6 => {
            let r: Result<u8, u8> = Instrumented::instrument(o, |_m| Err(2))
                .on_success(|_, m| m.plain = 999_999)
                .on_error(|_, m| m.plain = v.wrapping_add(1))
                .finalize_metrics(|_, m| m.plain = v)
                .emit();
            assert_eq!(r, Err(2));
        }
        _ => {
            let mut fut = Box::pin(Instrumented::instrument_async(o, async |m: &mut Owner| {
                m.plain = v;
                7u8
            }));
            let mut cx = Context::from_waker(Waker::noop());
            match fut.as_mut().poll(&mut cx) {
                Poll::Ready(i) => assert_eq!(i.emit(), 7),
                Poll::Pending => panic!("instrument_async over a ready closure is pending"),
            }
        }
    }
}

fn new_world_with(init: [u64; 2], sink: RecSink, ctor: u8) -> World {
    let owner = build_owner(init, sink.clone(), ctor);
    World { sink, owner: Some(owner), handles: vec![], fgs: vec![], dgs: vec![], guards: [None, None, None, None], orphans: vec![], fut: None, env: (0, 0, 0) }
}

struct WakeFlag(std::sync::atomic::AtomicBool);

impl std::task::Wake for WakeFlag {
    fn wake(self: Arc<Self>) {
        self.0.store(true, Ordering::SeqCst)
    }
}

/// one poll; the second component says whether the future woke its own waker during the poll (a cooperative
/// yield, not an answer)
fn poll_flag(f: &mut WaitFut) -> (Option<Option<u64>>, bool) {
    let flag = Arc::new(WakeFlag(std::sync::atomic::AtomicBool::new(false)));
    let waker = Waker::from(flag.clone());
    let mut cx = Context::from_waker(&waker);
    let r = match f.as_mut().poll(&mut cx) {
        Poll::Ready(v) => Some(v),
        Poll::Pending => None,
    };
    (r, flag.0.load(Ordering::SeqCst))
}

/// One poll of `wait_for_data` in environment `env`.  With the cooperative budget used up every tokio resource
/// answers `Pending` and asks (through the runtime's deferred-wake list) to be polled again: that is a yield, not the
/// answer "no data yet".  The harness then does what the runtime does — polls again with a fresh budget — and
/// reports that answer.  (Whether the wake-up was requested by then is counted, not judged: C13 is not about wake-ups.)
fn poll_once_in(env: u8, f: WaitFut) -> (Option<Option<u64>>, WaitFut) {
    let (r, woke, mut f) = run_in_env(env, move || {
        let mut f = f;
        let (r, woke) = poll_flag(&mut f);
        (r, woke, f)
    });
    if r.is_none() && (env == 2 || env == 5) {
        YIELDS_REPOLLED.fetch_add(1, Ordering::Relaxed);
        if woke {
            YIELDS_WOKEN_AT_ONCE.fetch_add(1, Ordering::Relaxed);
        }
        let (r2, _) = poll_flag(&mut f);
        return (r2, f);
    }
    (r, f)
}

static YIELDS_REPOLLED: AtomicU64 = AtomicU64::new(0);
static YIELDS_WOKEN_AT_ONCE: AtomicU64 = AtomicU64::new(0);

// ------------------------------------------------------------------------------------------------
// WHERE a drop / poll runs.  The property does not mention it, so nothing else changes.

const N_ENVS: usize = 6;
const ENV_NAMES: [&str; N_ENVS] = [
    "plain thread",
    "tokio current-thread task, fresh coop budget",
    "tokio current-thread task, coop budget exhausted",
    "tokio current-thread task, unconstrained",
    "tokio multi-thread worker, fresh coop budget",
    "tokio multi-thread worker, coop budget exhausted",
];

struct AssertSend<T>(T);
// Safety: the harness thread blocks until the task that received the value has finished; nothing is shared.
unsafe impl<T> Send for AssertSend<T> {}
impl<T> AssertSend<T> {
    fn into_inner(self) -> T {
        self.0
    }
}

thread_local! {
    static CT: tokio::runtime::Runtime = tokio::runtime::Builder::new_current_thread().build().expect("current-thread runtime");
}
static MT: std::sync::OnceLock<tokio::runtime::Runtime> = std::sync::OnceLock::new();
static BUDGET_EXHAUSTIONS: AtomicU64 = AtomicU64::new(0);

/// Use up the task's cooperative budget the way a busy handler does: receive ready messages without yielding.
/// Returns without awaiting anything once the budget is gone.
async fn exhaust_budget() {
    let (tx, mut rx) = tokio::sync::mpsc::unbounded_channel::<u32>();
    for i in 0..2_000 {
        tx.send(i).unwrap();
    }
    let mut n = 0u32;
    while tokio::task::coop::has_budget_remaining() {
        rx.recv().await.unwrap();
        n += 1;
        assert!(n < 1_999, "the coop budget never ran out");
    }
    BUDGET_EXHAUSTIONS.fetch_add(1, Ordering::Relaxed);
}

async fn drain_some() {
    let (tx, mut rx) = tokio::sync::mpsc::unbounded_channel::<u32>();
    for i in 0..300 {
        tx.send(i).unwrap();
    }
    for _ in 0..300 {
        rx.recv().await.unwrap();
    }
}

/// Runs `f` in environment `env` (index into `ENV_NAMES`) and returns its result; a panic inside is re-raised.
fn run_in_env<R: 'static>(env: u8, f: impl FnOnce() -> R + 'static) -> R {
    if env == 0 {
        return f();
    }
    let f = AssertSend(f);
    let task = async move {
        match env {
            2 | 5 => {
                exhaust_budget().await;
                // no await between here and `f`
                AssertSend(f.into_inner()())
            }
            3 => {
                tokio::task::unconstrained(async move {
                    drain_some().await;
                    AssertSend(f.into_inner()())
                })
                .await
            }
            _ => AssertSend(f.into_inner()()),
        }
    };
    let r = if env >= 4 {
        let rt = MT.get_or_init(|| tokio::runtime::Builder::new_multi_thread().worker_threads(2).build().expect("multi-thread runtime"));
        rt.block_on(async move { tokio::spawn(task).await })
    } else {
        CT.with(|rt| rt.block_on(async move { tokio::spawn(task).await }))
    };
    match r {
        Ok(v) => v.into_inner(),
        Err(e) => std::panic::resume_unwind(e.into_panic()),
    }
}

// ------------------------------------------------------------------------------------------------
// HOW a drop operation releases its object: by a plain `drop`, or because the scope / thread / task that owns it
// panics and unwinds (the panic is contained and recognised by its payload).  For the property a drop during
// unwinding is a drop like any other ("in whatever order and on whatever threads those drops occur").

const N_PANICS: usize = 4;
const PANIC_NAMES: [&str; N_PANICS] = [
    "plain drop",
    "owning scope panics (catch_unwind on the op's thread)",
    "owning spawned thread panics (joined)",
    "owning tokio task panics (JoinError)",
];
static PANIC_DROPS: [AtomicU64; N_PANICS] = [AtomicU64::new(0), AtomicU64::new(0), AtomicU64::new(0), AtomicU64::new(0)];

/// payload of the harness's own, contained panics
struct Contained;

fn unwind_owning<T>(obj: T) -> ! {
    let _owned = obj;
    std::panic::panic_any(Contained)
}

fn expect_contained(r: Result<(), Box<dyn std::any::Any + Send>>) {
    match r {
        Err(p) if p.is::<Contained>() => {}
        // a panic raised by the code under test (e.g. inside a destructor): not ours, pass it on
        Err(p) => std::panic::resume_unwind(p),
        Ok(()) => panic!("harness: the panicking scope returned normally"),
    }
}

/// Runs `f`, which owns some objects and ends in `unwind_owning` / a `Contained` panic, in environment `env`,
/// with the panic contained the `pm`-th way.
fn panic_in(env: u8, pm: u8, f: impl FnOnce() + 'static) {
    PANIC_DROPS[pm as usize].fetch_add(1, Ordering::Relaxed);
    match pm {
        1 => run_in_env(env, move || expect_contained(std::panic::catch_unwind(std::panic::AssertUnwindSafe(f)))),
        2 => run_in_env(env, move || {
            let f = AssertSend(f);
            let h = std::thread::spawn(move || f.into_inner()());
            expect_contained(h.join())
        }),
        _ => {
            // the environment's task itself panics; on a plain thread (env 0) a fresh current-thread runtime task does
            let env = if env == 0 { 1 } else { env };
            let r = std::panic::catch_unwind(std::panic::AssertUnwindSafe(move || run_in_env(env, f)));
            expect_contained(r)
        }
    }
}

/// a drop operation: `obj` is released in environment `env`, the `pm`-th way
fn release<T: 'static>(env: u8, pm: u8, obj: T) {
    if pm == 0 {
        PANIC_DROPS[0].fetch_add(1, Ordering::Relaxed);
        run_in_env(env, move || drop(obj))
    } else {
        panic_in(env, pm, move || unwind_owning(obj))
    }
}

/// drops a slot guard whose value's `close()` panics: the panic starts inside `SlotGuard::drop` (no other panic is in
/// flight), is contained the `pm`-th way (a `catch_unwind` scope when `pm = 0`), in environment `env`
fn bomb_drop(env: u8, pm: u8, g: SlotGuard<Child>) {
    BOMB_DROPS.fetch_add(1, Ordering::Relaxed);
    panic_in(env, pm.max(1), move || {
        drop(g);
        panic!("harness: the armed slot value closed without panicking")
    })
}
static BOMB_DROPS: AtomicU64 = AtomicU64::new(0);
static TRACE_BOMBS: AtomicU64 = AtomicU64::new(0);

/// finisher `k` of the owner; with `pm != 0` the handler panics instead of finishing: the guard is then dropped by
/// the unwind — inside `Instrumented::instrument`'s closure for the mutating finishers (after the mutation), inside
/// an `Instrumented` wrapper otherwise
fn finish_in(env: u8, pm: u8, o: Owner, k: u8, v: u64) {
    use metrique::instrument::Instrumented;
    if pm == 0 {
        PANIC_DROPS[0].fetch_add(1, Ordering::Relaxed);
        return run_in_env(env, move || finish_owner(o, k, v));
    }
    panic_in(env, pm, move || {
        if finisher_mutates(k) {
            let _: Instrumented<(), Owner> = Instrumented::instrument(o, |m| {
                m.plain = v;
                std::panic::panic_any(Contained)
            });
        } else if k == 0 {
            unwind_owning(o)
        } else {
            unwind_owning(Instrumented::from_parts((), o))
        }
    })
}

impl World {
    /// executes one (valid) op; returns (result token, open_ok, ready)
    fn env_for(&self, op: &Op) -> u8 {
        let class = match op {
            Op::Dref | Op::Fin(..) => 0,
            Op::Gd(_) | Op::Gdp(_) | Op::Ogd | Op::Ogdp | Op::Dfg | Op::Ddg => 1,
            Op::Wb(_) | Op::Wp => 2,
            _ => return 0,
        };
        if self.env.1 == 3 || self.env.1 == class { self.env.0 } else { 0 }
    }

    /// how a drop operation releases its object (0 = plain drop); polls are never "panicked"
    fn panic_for(&self, op: &Op) -> u8 {
        let class = match op {
            Op::Dref | Op::Fin(..) => 0,
            Op::Gd(_) | Op::Gdp(_) | Op::Ogd | Op::Ogdp | Op::Dfg | Op::Ddg => 1,
            _ => return 0,
        };
        if self.env.1 == 3 || self.env.1 == class { self.env.2 } else { 0 }
    }

    fn exec(&mut self, op: &Op) -> (String, bool, bool) {
        let env = self.env_for(op);
        let pm = self.panic_for(op);
        let mut res = "-".to_string();
        let mut open_ok = false;
        let mut ready = false;
        match *op {
            Op::Fg => self.fgs.push(self.owner.as_ref().unwrap().flush_guard()),
            Op::Dg => self.dgs.push(Box::pin(self.owner.as_ref().unwrap().force_flush_guard())),
            Op::Mut(v) => self.owner.as_mut().unwrap().plain = v,
            Op::Hit(v) => match (&self.owner, self.handles.first()) {
                (Some(o), _) => o.hits.set(v),
                (None, Some(h)) => h.hits.set(v),
                _ => unreachable!(),
            },
            Op::Hnd => self.handles.push(self.owner.take().unwrap().handle()),
            Op::Cl => self.handles.push(self.handles.last().unwrap().clone()),
            Op::Dref => {
                let o = self.owner.take();
                let h = if o.is_none() { self.handles.pop() } else { None };
                release(env, pm, (o, h))
            }
            Op::Fin(k, v) => {
                let o = self.owner.take().unwrap();
                finish_in(env, pm, o, k, v)
            }
            // the constructor was chosen when the world was built (`ctor_of`)
            Op::Ctor(_) => {}
            Op::Env(e, w, p) => self.env = (e, w, p),
            Op::Dfg => {
                let g = self.fgs.pop();
                release(env, pm, g)
            }
            Op::Ddg => {
                let g = self.dgs.pop();
                release(env, pm, g)
            }
            Op::Open(i, w, v0) => {
                let mode = if w { OnParentDrop::Wait(self.fgs.pop().unwrap()) } else { OnParentDrop::Discard };
                let o = self.owner.as_mut().unwrap();
                let g = match i {
                    0 => o.a.open(mode),
                    1 => o.b.open(mode),
                    2 => o.c.open(child(v0), mode),
                    _ => o.d.open(child(v0), mode),
                };
                open_ok = g.is_some();
                res = if open_ok { "some".into() } else { "none".into() };
                if let Some(g) = g {
                    self.guards[i] = Some(g);
                }
            }
            Op::Delay(i) => {
                let fg = self.fgs.pop().unwrap();
                self.guards[i].as_mut().unwrap().delay_flush(fg)
            }
            Op::Wb(i) => {
                let o = self.owner.as_mut().unwrap();
                let slot: *mut Slot<Child> = if i == 0 { &mut o.a } else { &mut o.b };
                // The future mutably borrows the owner; `Shadow::valid` refuses every operation that touches
                // the owner while it is alive, which is exactly what the borrow checker enforces on clients.
                // (The entry lives in the `Arc` allocation, so moving `self.owner` does not move it.)
                let f: WaitFut = Box::pin(async move {
                    let s: &mut Slot<Child> = unsafe { &mut *slot };
                    s.wait_for_data().await.as_ref().map(|c| closed_val(c))
                });
                let (r, f) = poll_once_in(env, f);
                match r {
                    Some(v) => {
                        ready = true;
                        res = format!("R{}", v.map(|x| x.to_string()).unwrap_or("n".into()));
                    }
                    None => {
                        res = "P".into();
                        self.fut = Some((i, f));
                    }
                }
            }
            Op::Wp => {
                let (i, f) = self.fut.take().unwrap();
                let (r, f) = poll_once_in(env, f);
                match r {
                    Some(v) => {
                        ready = true;
                        res = format!("R{}", v.map(|x| x.to_string()).unwrap_or("n".into()));
                    }
                    None => {
                        res = "P".into();
                        self.fut = Some((i, f));
                    }
                }
            }
            Op::Wc => self.fut = None,
            Op::Gm(i, v) => self.guards[i].as_mut().unwrap().val.v = v,
            Op::Gd(i) => {
                let g = self.guards[i].take();
                release(env, pm, g)
            }
            Op::Gc(i) => res = if self.guards[i].as_ref().unwrap().parent_is_closed() { "t".into() } else { "f".into() },
            Op::Gdp(i) => {
                let mut g = self.guards[i].take().unwrap();
                g.val.bomb = true;
                bomb_drop(env, pm, g)
            }
            Op::Gdg(i) => {
                let mut g = self.guards[i].take().unwrap();
                let gate = Arc::new(CloseGate::default());
                g.val.gate = Some(gate.clone());
                let t = std::thread::spawn(move || catch(move || drop(g)));
                let parked = gate.wait_reached(gate_wait());
                // while the value's `close()` is parked: the owner, every handle, every free flush guard go away here
                let r = catch(|| {
                    drop(self.owner.take());
                    self.handles.clear();
                    self.fgs.clear();
                });
                // what the sink has at this instant (the guard has not sent yet, its flush guard is still held)
                let mid = self.sink.len();
                gate.release();
                let tr = t.join();
                if let Err(p) = r {
                    std::panic::resume_unwind(Box::new(p));
                }
                match tr {
                    Ok(Ok(())) => {}
                    Ok(Err(p)) => std::panic::resume_unwind(Box::new(p)),
                    Err(p) => std::panic::resume_unwind(p),
                }
                res = if parked { format!("m{mid}") } else { "unparked".into() };
            }
            Op::Rep(i, v) => {
                let o = self.owner.as_mut().unwrap();
                match i {
                    0 => drop(std::mem::replace(&mut o.a, Slot::new(child(v)))),
                    1 => drop(std::mem::replace(&mut o.b, Slot::new(child(v)))),
                    2 => drop(std::mem::take(&mut o.c)),
                    _ => drop(std::mem::take(&mut o.d)),
                }
                if let Some(g) = self.guards[i].take() {
                    self.orphans.push(g)
                }
            }
            Op::Odelay => {
                let fg = self.fgs.pop().unwrap();
                self.orphans.last_mut().unwrap().delay_flush(fg)
            }
            Op::Ogm(v) => self.orphans.last_mut().unwrap().val.v = v,
            Op::Ogd => {
                let g = self.orphans.pop();
                release(env, pm, g)
            }
            Op::Ogdp => {
                let mut g = self.orphans.pop().unwrap();
                g.val.bomb = true;
                bomb_drop(env, pm, g)
            }
        }
        (res, open_ok, ready)
    }
}

#[allow(deprecated)]
fn closed_val(c: &<Child as metrique::CloseValue>::Closed) -> u64 {
    c.val
}

impl Drop for World {
    fn drop(&mut self) {
        // the pending future points into the entry: it goes first
        self.fut.take();
    }
}

// ------------------------------------------------------------------------------------------------
// cases

#[derive(Clone, Debug)]
struct Case {
    init: [u64; 2],
    ops: Vec<Op>,
}

impl Case {
    fn encode(&self) -> String {
        format!("E{},E{},L,L | {}", self.init[0], self.init[1], self.ops.iter().map(|o| o.enc()).collect::<Vec<_>>().join(" "))
    }
    fn decode(s: &str) -> Option<Case> {
        let (slots, ops) = s.split_once(" | ").or_else(|| s.strip_suffix(" |").map(|h| (h, "")))?;
        let sl: Vec<&str> = slots.trim().split(',').collect();
        if sl.len() != 4 || sl[2] != "L" || sl[3] != "L" {
            return None;
        }
        let init = [sl[0].strip_prefix('E')?.parse().ok()?, sl[1].strip_prefix('E')?.parse().ok()?];
        let ops: Option<Vec<Op>> = ops.split_whitespace().map(Op::dec).collect();
        Some(Case { init, ops: ops? })
    }
}

struct Outcome {
    /// the operations that were valid when their turn came (the others are skipped on both sides)
    ops: Vec<Op>,
    /// `<res>/<appended so far>` per executed op
    toks: Vec<String>,
    recs: Vec<Rec>,
    /// first oracle failure: (key, what)
    fail: Option<(String, String)>,
    appended_at: Option<usize>,
}

impl Outcome {
    fn impl_line(&self) -> String {
        let apps = if self.recs.is_empty() { "-".into() } else { self.recs.iter().map(|r| r.show()).collect::<Vec<_>>().join(";") };
        format!("{} | {}", self.toks.join(" "), apps)
    }
}

fn run_case_here(c: &Case, slots_checked: bool) -> Outcome {
    let mut w = new_world(c.init, ctor_of(&c.ops));
    let mut sh = Shadow::new();
    let mut or = Oracle::new(c.init);
    let mut out = Outcome { ops: vec![], toks: vec![], recs: vec![], fail: None, appended_at: None };
    let mut fut_slot = 0usize;
    for op in &c.ops {
        if !sh.valid(op) {
            continue;
        }
        let (refs_before, fgs_before) = (sh.owner as usize + sh.handles, sh.fgs);
        let r = catch(|| w.exec(op));
        let (res, open_ok, ready) = match r {
            Ok(x) => x,
            Err(p) => {
                out.ops.push(*op);
                out.toks.push(format!("panic/{}", w.sink.len()));
                if out.fail.is_none() {
                    out.fail = Some(("keepalive:panic".into(), format!("operation {} panicked: {p}", op.enc())));
                }
                break;
            }
        };
        sh.apply(op, open_ok, ready);
        if let Op::Wb(i) = *op {
            fut_slot = i;
        }
        let n = w.sink.len();
        out.ops.push(*op);
        out.toks.push(format!("{res}/{n}"));
        if n > 0 && out.appended_at.is_none() {
            out.appended_at = Some(out.ops.len() - 1);
        }
        // --- oracle
        let mut want;
        if let Op::Gdg(i) = *op {
            // the property's reading of a gated close: everything else is dropped first, the guard's drop finishes last
            for _ in 0..refs_before {
                or.step(&Op::Dref);
            }
            for _ in 0..fgs_before {
                or.step(&Op::Dfg);
            }
            let mid = or.appended.is_some() as usize;
            or.step(&Op::Gd(i));
            want = format!("m{mid}");
            if out.fail.is_none() && res != want {
                out.fail = Some((
                    "keepalive:append-moment".into(),
                    format!("{}: while the slot guard's drop was still inside the value's close() (nothing sent, its flush guard still held) and the owner, handles and free flush guards had been dropped, the sink had {res} entries, the property demands {want}", op.enc()),
                ));
            }
        } else {
            want = or.step(op);
        }
        if let Op::Wp = *op {
            want = or.wait_answer(fut_slot);
        }
        if out.fail.is_some() {
            continue;
        }
        let want_n = or.appended.is_some() as usize;
        if n != want_n {
            let what = if n > want_n {
                if n > 1 { "the entry was appended more than once" } else { "the entry was appended before its owner, handles and (all flush guards or a force-flush guard) were dropped" }
            } else {
                "the entry was not appended although its owner, all handles and (all flush guards or a force-flush guard) have been dropped"
            };
            out.fail = Some(("keepalive:append-moment".into(), format!("after {}: sink has {n} entries, property demands {want_n}: {what}", op.enc())));
            continue;
        }
        if let (Some(wr), Some(rec)) = (&or.appended, w.sink.all().first()) {
            if rec.plain != wr.plain || rec.hits != wr.hits || rec.extra_keys != 0 {
                out.fail = Some(("keepalive:content".into(), format!("appended entry {} but the owner last wrote plain={} hits={}", rec.show(), wr.plain, wr.hits)));
                continue;
            }
            if slots_checked && rec.slots != wr.slots {
                out.fail = Some(("slot:value".into(), format!("appended entry {} but the slot guards dropped before the close demand {}", rec.show(), wr.show())));
                continue;
            }
        }
        if slots_checked && res != want {
            let key = match op {
                Op::Open(..) => "slot:open",
                Op::Gc(_) => "slot:parent-is-closed",
                _ => "slot:wait",
            };
            out.fail = Some((key.into(), format!("{} returned {res}, property demands {want}", op.enc())));
        }
    }
    out.recs = w.sink.all();
    // whatever the history left alive is dropped now; a panic there is a finding too (and must not take the shard down)
    if let Err(p) = catch(move || drop(w)) {
        if out.fail.is_none() {
            out.fail = Some(("keepalive:panic".into(), format!("dropping what the history left alive panicked: {p}")));
        }
    }
    out
}

// ------------------------------------------------------------------------------------------------
// Histories in which a destructor panics (`gdp`, `ogdp`) run in a child process: in the code as it is such a panic is
// always the only one in flight, but a defect that makes the entry's own destructor panic while the guard's unwind is
// releasing the last flush guard is a double panic, i.e. a process abort — which must be a finding, not the end of
// the engine.  The child (`keepalive --child 1`) reads `<slots_checked>\t<case line>` per line on stdin and answers
// one JSON line per case; if it dies, the case it was working on is reported as aborted and a new child is started.

static IS_CHILD: std::sync::atomic::AtomicBool = std::sync::atomic::AtomicBool::new(false);
static CHILD_CASES: AtomicU64 = AtomicU64::new(0);
static CHILD_ABORTS: AtomicU64 = AtomicU64::new(0);

fn needs_child(c: &Case) -> bool {
    c.ops.iter().any(|o| matches!(o, Op::Gdp(_) | Op::Ogdp))
}

fn outcome_to_json(o: &Outcome) -> Json {
    json!({
        "ops": o.ops.iter().map(|x| x.enc()).collect::<Vec<_>>(),
        "toks": o.toks,
        "recs": o.recs.iter().map(|r| json!([r.plain, r.hits, r.slots.iter().map(|s| s.map(|v| v as i64).unwrap_or(-1)).collect::<Vec<_>>(), r.extra_keys])).collect::<Vec<_>>(),
        "fail": o.fail.as_ref().map(|f| json!([f.0, f.1])),
        "appended_at": o.appended_at,
    })
}

fn outcome_from_json(j: &Json) -> Option<Outcome> {
    let ops: Option<Vec<Op>> = j["ops"].as_array()?.iter().map(|x| Op::dec(x.as_str()?)).collect();
    let toks = j["toks"].as_array()?.iter().map(|x| x.as_str().unwrap_or("").to_string()).collect();
    let mut recs = vec![];
    for r in j["recs"].as_array()? {
        let mut slots = [None; NSLOTS];
        for (i, v) in r[2].as_array()?.iter().enumerate() {
            let v = v.as_i64()?;
            slots[i] = if v < 0 { None } else { Some(v as u64) };
        }
        recs.push(Rec { plain: r[0].as_u64()?, hits: r[1].as_u64()?, slots, seq: 0, extra_keys: r[3].as_u64()? as usize });
    }
    let fail = j["fail"].as_array().map(|f| (f[0].as_str().unwrap_or("").to_string(), f[1].as_str().unwrap_or("").to_string()));
    Some(Outcome { ops: ops?, toks, recs, fail, appended_at: j["appended_at"].as_u64().map(|x| x as usize) })
}

fn child_main() {
    use std::io::{BufRead, Write};
    IS_CHILD.store(true, Ordering::SeqCst);
    let stdin = std::io::stdin();
    let mut out = std::io::stdout();
    for line in stdin.lock().lines() {
        let Ok(line) = line else { break };
        let Some((sc, case)) = line.split_once('\t') else { continue };
        let ans = match Case::decode(case) {
            Some(c) => outcome_to_json(&run_case_guarded(&c, sc == "1")),
            None => json!(null),
        };
        let _ = writeln!(out, "{ans}");
        let _ = out.flush();
    }
}

struct ChildProc {
    child: std::process::Child,
    stdin: std::process::ChildStdin,
    /// lines of the child's stdout (read by a helper thread, so that the parent can wait with a time limit)
    lines: std::sync::mpsc::Receiver<String>,
}

thread_local! {
    static CHILD: std::cell::RefCell<Option<ChildProc>> = const { std::cell::RefCell::new(None) };
}

fn spawn_child() -> Option<ChildProc> {
    let exe = std::env::current_exe().ok()?;
    let mut child = std::process::Command::new(exe)
        .args(["--child", "1"])
        .stdin(std::process::Stdio::piped())
        .stdout(std::process::Stdio::piped())
        .stderr(std::process::Stdio::null())
        .spawn()
        .ok()?;
    let stdin = child.stdin.take()?;
    let stdout = std::io::BufReader::new(child.stdout.take()?);
    let (tx, lines) = std::sync::mpsc::channel::<String>();
    std::thread::spawn(move || {
        use std::io::BufRead;
        for l in stdout.lines() {
            let Ok(l) = l else { break };
            if tx.send(l).is_err() {
                break;
            }
        }
    });
    Some(ChildProc { child, stdin, lines })
}

fn run_case_in_child(c: &Case, slots_checked: bool) -> Outcome {
    use std::io::Write;
    CHILD_CASES.fetch_add(1, Ordering::Relaxed);
    CHILD.with(|cell| {
        let mut slot = cell.borrow_mut();
        if slot.is_none() {
            *slot = spawn_child();
        }
        let Some(cp) = slot.as_mut() else {
            // no child process available: run here (the code as it is never aborts)
            return run_case_here(c, slots_checked);
        };
        let sent = writeln!(cp.stdin, "{}\t{}", if slots_checked { "1" } else { "0" }, c.encode()).is_ok() && cp.stdin.flush().is_ok();
        if sent {
            // the child has its own per-history watchdog; this one is the backstop
            match cp.lines.recv_timeout(case_timeout() * 2 + std::time::Duration::from_secs(5)) {
                Ok(line) => {
                    if let Some(o) = serde_json::from_str::<Json>(&line).ok().and_then(|j| outcome_from_json(&j)) {
                        return o;
                    }
                }
                Err(std::sync::mpsc::RecvTimeoutError::Timeout) => {
                    let _ = cp.child.kill();
                    let _ = cp.child.wait();
                    *slot = None;
                    return hang_outcome(c);
                }
                Err(_) => {}
            }
        }
        // the child died on this case
        let status = cp.child.wait().map(|s| format!("{s}")).unwrap_or_default();
        *slot = None;
        CHILD_ABORTS.fetch_add(1, Ordering::Relaxed);
        Outcome {
            ops: c.ops.clone(),
            toks: vec!["abort".into()],
            recs: vec![],
            fail: Some((
                "keepalive:abort".into(),
                format!("the process aborted ({status}) while running this history: a second panic was raised while a contained panic was unwinding (a destructor of the entry or of a guard panicked during the unwind); nothing can have been appended afterwards"),
            )),
            appended_at: None,
        }
    })
}

static HANGS: AtomicU64 = AtomicU64::new(0);

fn hang_outcome(c: &Case) -> Outcome {
    HANGS.fetch_add(1, Ordering::Relaxed);
    Outcome {
        ops: c.ops.clone(),
        toks: vec!["hang".into()],
        recs: vec![],
        fail: Some((
            "keepalive:hang".into(),
            format!("the operations did not complete within {} s (a history takes milliseconds): deadlock", case_timeout().as_secs()),
        )),
        appended_at: None,
    }
}

/// in-process runner with a time limit: histories run on a helper thread of this shard; if one does not come back, the
/// helper is abandoned (it may be blocked for good), the history is reported as `keepalive:hang`, a new helper is started
struct Helper {
    tx: std::sync::mpsc::Sender<(Case, bool)>,
    rx: std::sync::mpsc::Receiver<Outcome>,
}

thread_local! {
    static HELPER: std::cell::RefCell<Option<Helper>> = const { std::cell::RefCell::new(None) };
}

fn run_case_guarded(c: &Case, slots_checked: bool) -> Outcome {
    HELPER.with(|cell| {
        let mut slot = cell.borrow_mut();
        if slot.is_none() {
            let (tx, job_rx) = std::sync::mpsc::channel::<(Case, bool)>();
            let (out_tx, rx) = std::sync::mpsc::channel::<Outcome>();
            std::thread::spawn(move || {
                while let Ok((c, sc)) = job_rx.recv() {
                    if out_tx.send(run_case_here(&c, sc)).is_err() {
                        break;
                    }
                }
            });
            *slot = Some(Helper { tx, rx });
        }
        let h = slot.as_ref().unwrap();
        if h.tx.send((c.clone(), slots_checked)).is_err() {
            *slot = None;
            return run_case_here(c, slots_checked);
        }
        match h.rx.recv_timeout(case_timeout()) {
            Ok(o) => o,
            Err(std::sync::mpsc::RecvTimeoutError::Timeout) => {
                *slot = None;
                hang_outcome(c)
            }
            Err(_) => {
                // the helper died with a panic that escaped `run_case_here`: report it, do not take the shard down
                *slot = None;
                let mut o = hang_outcome(c);
                o.fail = Some(("keepalive:panic".into(), "the thread running the history died".into()));
                o
            }
        }
    })
}

fn run_case(c: &Case, slots_checked: bool) -> Outcome {
    // threads and gates (`gdg`) and panicking destructors run in the child process, everything else on the helper thread
    if (needs_child(c) || c.ops.iter().any(|o| matches!(o, Op::Gdg(_)))) && !IS_CHILD.load(Ordering::SeqCst) {
        run_case_in_child(c, slots_checked)
    } else {
        run_case_guarded(c, slots_checked)
    }
}

// ------------------------------------------------------------------------------------------------
// generators

/// predicts `open_ok` / `ready` for generation only (validity of later ops is re-checked against the
/// implementation's actual answers in `run_case`)
#[derive(Clone, Default)]
struct GenState {
    sh: Shadow,
    opened: [bool; NSLOTS],
    gdropped: [bool; NSLOTS],
    fut_slot: usize,
    mut_done: bool,
    hit_done: bool,
    gm_done: bool,
}

impl GenState {
    fn new() -> GenState {
        GenState { sh: Shadow::new(), ..Default::default() }
    }
    fn apply(&mut self, op: &Op) {
        let mut open_ok = false;
        let mut ready = false;
        match *op {
            Op::Open(i, ..) => {
                open_ok = !self.opened[i];
                self.opened[i] = true
            }
            Op::Wb(i) => {
                self.fut_slot = i;
                ready = self.gdropped[i]
            }
            Op::Wp => ready = self.gdropped[self.fut_slot],
            Op::Gd(i) | Op::Gdp(i) | Op::Gdg(i) => self.gdropped[i] = true,
            Op::Rep(i, _) => {
                self.opened[i] = false;
                self.gdropped[i] = false
            }
            Op::Mut(_) => self.mut_done = true,
            Op::Hit(_) => self.hit_done = true,
            Op::Gm(..) => self.gm_done = true,
            _ => {}
        }
        self.sh.apply(op, open_ok, ready);
    }
}

struct Family {
    alphabet: Vec<Op>,
    max_fg: usize,
    max_dg: usize,
    max_cl: usize,
}

fn family_c06() -> Family {
    Family {
        alphabet: vec![Op::Fg, Op::Dg, Op::Hnd, Op::Cl, Op::Dref, Op::Fin(1, 0), Op::Dfg, Op::Ddg, Op::Mut(7), Op::Hit(5)],
        max_fg: 3,
        max_dg: 2,
        max_cl: 2,
    }
}

fn family_c13() -> Family {
    Family {
        alphabet: vec![
            Op::Fg, Op::Dg, Op::Dref, Op::Fin(1, 0), Op::Dfg, Op::Ddg,
            Op::Open(0, true, 0), Op::Open(0, false, 0), Op::Open(2, true, 4), Op::Open(2, false, 4),
            Op::Gm(0, 9), Op::Gd(0), Op::Gd(2), Op::Wb(0), Op::Wp, Op::Wc, Op::Delay(0), Op::Gc(0),
        ],
        max_fg: 2,
        max_dg: 1,
        max_cl: 0,
    }
}

/// guards that fail (`close()` panics) or outlive their slot field, with a sibling slot
fn family_x() -> Family {
    Family {
        alphabet: vec![
            Op::Fg, Op::Dg, Op::Dref, Op::Dfg, Op::Ddg,
            Op::Open(0, true, 0), Op::Open(0, false, 0), Op::Open(1, true, 0),
            Op::Gm(0, 9), Op::Gd(0), Op::Gd(1), Op::Gdp(0), Op::Gdg(0), Op::Rep(0, 8), Op::Odelay, Op::Ogd, Op::Wb(0), Op::Wc,
        ],
        max_fg: 2,
        max_dg: 1,
        max_cl: 0,
    }
}

fn allowed(f: &Family, g: &GenState, op: &Op) -> bool {
    if !g.sh.valid(op) {
        return false;
    }
    match op {
        Op::Fg => g.sh.fg_made < f.max_fg,
        Op::Dg => g.sh.dg_made < f.max_dg,
        Op::Cl => g.sh.cl_made < f.max_cl,
        Op::Mut(_) => !g.mut_done,
        Op::Hit(_) => !g.hit_done,
        Op::Gm(..) => !g.gm_done,
        Op::Wp => true,
        _ => true,
    }
}

/// all maximal op sequences of length <= depth (leaves at `depth`, or earlier when nothing is allowed)
fn enumerate(f: &Family, depth: usize, visit: &mut dyn FnMut(&[Op])) {
    fn go(f: &Family, g: &GenState, cur: &mut Vec<Op>, depth: usize, visit: &mut dyn FnMut(&[Op])) {
        if cur.len() == depth {
            visit(cur);
            return;
        }
        let mut any = false;
        for op in &f.alphabet {
            if allowed(f, g, op) {
                // two polls in a row of a pending future add nothing
                if matches!(op, Op::Wp) && matches!(cur.last(), Some(Op::Wp)) {
                    continue;
                }
                any = true;
                let mut g2 = g.clone();
                g2.apply(op);
                cur.push(*op);
                go(f, &g2, cur, depth, visit);
                cur.pop();
            }
        }
        if !any {
            visit(cur);
        }
    }
    go(f, &GenState::new(), &mut vec![], depth, visit);
}

fn random_case(rng: &mut Rng, slots: bool) -> Case {
    random_case_opts(rng, slots, true, 28)
}

fn random_case_opts(rng: &mut Rng, slots: bool, tail: bool, max_len: u64) -> Case {
    let init = [rng.below(50), rng.below(50)];
    let len = rng.range(3, max_len) as usize;
    let mut g = GenState::new();
    let mut ops = vec![];
    if rng.chance(1, 2) {
        // where drops / polls run: a tokio task (fresh / exhausted coop budget / unconstrained / multi-thread worker)
        let e = Op::Env(rng.below(N_ENVS as u64) as u8, rng.below(4) as u8, if rng.chance(1, 2) { rng.range(1, N_PANICS as u64 - 1) as u8 } else { 0 });
        g.apply(&e);
        ops.push(e);
    }
    if rng.chance(1, 2) {
        let c = Op::Ctor(rng.below(N_CTORS as u64) as u8);
        g.apply(&c);
        ops.push(c);
    }
    let nslots_used = if slots { rng.range(1, 4) as usize } else { 0 };
    // a third of the slot histories also panic in a guard's `close()` / replace slot fields under live guards
    let x_ops = slots && tail && rng.chance(1, 3);
    for _ in 0..len {
        // candidate ops with weights
        let mut cands: Vec<(u64, Op)> = vec![
            (3, Op::Fg), (2, Op::Dg), (2, Op::Mut(rng.below(100))), (2, Op::Hit(rng.below(100))), (1, Op::Hnd),
            (2, Op::Cl), (2, Op::Dref), (2, Op::Fin(rng.below(N_FINISHERS as u64) as u8, rng.below(100))), (3, Op::Dfg), (2, Op::Ddg),
        ];
        for i in 0..nslots_used {
            let i = if nslots_used <= 2 && rng.chance(1, 2) { i + 2 } else { i }; // mix eager / lazy
            let i = i.min(NSLOTS - 1);
            cands.push((3, Op::Open(i, rng.chance(1, 2), rng.below(50))));
            cands.push((2, Op::Gm(i, rng.below(100))));
            cands.push((3, Op::Gd(i)));
            cands.push((1, Op::Delay(i)));
            cands.push((1, Op::Gc(i)));
            if tail {
                cands.push((1, Op::Gdg(i)));
            }
            if x_ops {
                cands.push((1, Op::Gdp(i)));
                cands.push((1, Op::Rep(i, rng.below(50))));
            }
            if i < 2 {
                cands.push((2, Op::Wb(i)));
            }
        }
        if slots {
            cands.push((4, Op::Wp));
            cands.push((4, Op::Wc));
        }
        if slots && x_ops {
            cands.push((3, Op::Odelay));
            cands.push((1, Op::Ogm(rng.below(100))));
            cands.push((3, Op::Ogd));
            cands.push((1, Op::Ogdp));
        }
        let valid: Vec<(u64, Op)> = cands.into_iter().filter(|(_, o)| g.sh.valid(o)).collect();
        if valid.is_empty() {
            break;
        }
        let total: u64 = valid.iter().map(|v| v.0).sum();
        let mut r = rng.below(total);
        let mut pick = valid[0].1;
        for (w, o) in &valid {
            if r < *w {
                pick = *o;
                break;
            }
            r -= w;
        }
        g.apply(&pick);
        ops.push(pick);
    }
    // cleanup tail: drop everything that is left, in a random order (then exactly one entry must exist)
    if tail && rng.chance(2, 3) {
        let mut tail = vec![];
        if g.sh.fut {
            ops.push(Op::Wc);
            g.apply(&Op::Wc);
        }
        if g.sh.owner {
            tail.push(Op::Fin(rng.below(N_FINISHERS as u64) as u8, rng.below(100)));
        }
        for _ in 0..g.sh.handles {
            tail.push(Op::Dref);
        }
        for _ in 0..g.sh.fgs {
            tail.push(Op::Dfg);
        }
        for _ in 0..g.sh.dgs {
            tail.push(Op::Ddg);
        }
        for i in 0..NSLOTS {
            if g.sh.guards[i] {
                tail.push(if x_ops && rng.chance(1, 4) { Op::Gdp(i) } else { Op::Gd(i) });
            }
        }
        for _ in 0..g.sh.orphans {
            tail.push(Op::Ogd);
        }
        rng.shuffle(&mut tail);
        ops.extend(tail);
    }
    Case { init, ops }
}

// ------------------------------------------------------------------------------------------------

/// projection used for C06: per-op appended counts and the entry's own fields (slot details belong to C13)
fn project_c06(line: &str) -> String {
    let (toks, apps) = line.split_once(" | ").unwrap_or((line, ""));
    let t: Vec<String> = toks.split(' ').map(|t| t.rsplit('/').next().unwrap_or("").to_string()).collect();
    let a: Vec<String> = apps.split(';').map(|a| a.splitn(3, ':').take(2).collect::<Vec<_>>().join(":")).collect();
    format!("{} | {}", t.join(" "), a.join(";"))
}

struct ShardOut {
    evals: Vec<(String, bool, Vec<String>)>, // (case line, nontrivial, bumps)
    failures: Vec<(String, String, String, String)>,
    disagreements: Vec<(String, String, String)>,
    driver_ok: bool,
    samples: Vec<Json>,
}

fn shrink_case(c: &Case, slots_checked: bool, key: &str) -> Case {
    let ops = shrink_list(&c.ops, |ops| {
        let cc = Case { init: c.init, ops: ops.to_vec() };
        run_case(&cc, slots_checked).fail.map(|f| f.0 == key).unwrap_or(false)
    });
    Case { init: c.init, ops }
}

fn process(cases: &[Case], args: &Args, slots_checked: bool) -> ShardOut {
    let mut so = ShardOut { evals: vec![], failures: vec![], disagreements: vec![], driver_ok: true, samples: vec![] };
    let mut requests = vec![];
    let mut impl_lines = vec![];
    for (ci, c) in cases.iter().enumerate() {
        let o = run_case(c, slots_checked);
        let executed = Case { init: c.init, ops: o.ops.clone() };
        let enc = executed.encode();
        let mut bumps = vec![];
        for op in &o.ops {
            bumps.push(match op {
                Op::Fin(k, _) => format!("op:fin:{k}"),
                Op::Ctor(k) => format!("op:ctor:{k}"),
                Op::Env(e, w, p) => format!("env:{} / applies to {} / {}", ENV_NAMES[*e as usize], ["owner-ending ops", "guard drops", "wait_for_data polls", "all drops and polls"][*w as usize], PANIC_NAMES[*p as usize]),
                _ => format!("op:{}", op.enc().split(':').next().unwrap()),
            });
        }
        bumps.push(format!("len:{:02}-{:02}", o.ops.len() / 5 * 5, o.ops.len() / 5 * 5 + 4));
        bumps.push(format!("appended:{}", o.recs.len()));
        if let Some(r) = o.recs.first() {
            bumps.push(format!("slots-present:{}", r.slots.iter().filter(|s| s.is_some()).count()));
            // (an operation that panicked after the append leaves no index)
            if let Some(last) = o.appended_at.and_then(|at| o.ops.get(at)) {
                bumps.push(format!("append-triggered-by:{}", last.enc().split(':').next().unwrap()));
            }
        }
        // non-trivial: a guard of some kind existed when the last owning reference was dropped, or a handle was used
        let mut sh = (0usize, 0usize, false, false); // fgs+slot guards alive, dgs, handle seen, nontrivial
        {
            let mut g = GenState::new();
            for op in &o.ops {
                if matches!(op, Op::Hnd) {
                    sh.2 = true;
                }
                if matches!(op, Op::Dref | Op::Fin(..)) && (g.sh.owner as usize + g.sh.handles) == 1 {
                    sh.0 = g.sh.fgs + g.sh.guards.iter().filter(|x| **x).count();
                    sh.1 = g.sh.dgs;
                    sh.3 = sh.0 > 0 || sh.1 > 0 || sh.2;
                }
                g.apply(op);
            }
        }
        so.evals.push((enc.clone(), sh.3, bumps));
        if ci % 4999 == 0 {
            so.samples.push(json!({"case": enc, "impl": o.impl_line()}));
        }
        if let Some((key, _)) = &o.fail {
            let small = shrink_case(&executed, slots_checked, key);
            let oo = run_case(&small, slots_checked);
            let what = oo.fail.as_ref().map(|f| f.1.clone()).unwrap_or_default();
            so.failures.push((key.clone(), Case { init: small.init, ops: oo.ops.clone() }.encode(), oo.impl_line(), what));
        }
        requests.push(enc);
        impl_lines.push(o.impl_line());
    }
    match run_driver(&args.driver, "keepalive", &requests) {
        Some(replies) => {
            for ((req, imp), rep) in requests.iter().zip(impl_lines.iter()).zip(replies.iter()) {
                let same = if slots_checked { imp == rep } else { project_c06(imp) == project_c06(rep) };
                if !same && so.disagreements.len() < 20 {
                    so.disagreements.push((req.clone(), imp.clone(), rep.clone()));
                }
            }
        }
        None => so.driver_ok = false,
    }
    so
}

// ------------------------------------------------------------------------------------------------
// Stage 2: T-trace

static PERTURB: AtomicU64 = AtomicU64::new(0);
static TRACE_ENVS: [AtomicU64; N_ENVS] = [AtomicU64::new(0), AtomicU64::new(0), AtomicU64::new(0), AtomicU64::new(0), AtomicU64::new(0), AtomicU64::new(0)];
static POINT_HITS: [AtomicU64; 4] = [AtomicU64::new(0), AtomicU64::new(0), AtomicU64::new(0), AtomicU64::new(0)];

fn jitter() {
    // splitmix step on a shared state: every decision derives from the case's perturbation seed
    let x = PERTURB.fetch_add(0x9E37_79B9_7F4A_7C15, Ordering::Relaxed);
    let mut z = x;
    z = (z ^ (z >> 30)).wrapping_mul(0xBF58_476D_1CE4_E5B9);
    z = (z ^ (z >> 27)).wrapping_mul(0x94D0_49BB_1331_11EB);
    z ^= z >> 31;
    match z % 6 {
        0 | 1 => {}
        2 | 3 => std::thread::yield_now(),
        4 => {
            let t = std::time::Instant::now();
            while t.elapsed() < std::time::Duration::from_micros(5 + z % 40) {
                std::hint::spin_loop();
            }
        }
        _ => std::thread::sleep(std::time::Duration::from_micros(20 + z % 120)),
    }
}

fn install_perturbation() {
    metrique_writer_core::verif::set_callback(Some(Box::new(|id| {
        if (10..=13).contains(&id) {
            POINT_HITS[(id - 10) as usize].fetch_add(1, Ordering::Relaxed);
            if id == 11 && GATE_ME.with(|g| g.get()) {
                // gated schedule: this thread has taken the keep-alive closure and has not run it yet
                let mut st = GATE.lock().unwrap();
                st.0 = true;
                GATE_CV.notify_all();
                while !st.1 {
                    st = GATE_CV.wait(st).unwrap();
                }
                return;
            }
            jitter();
        }
    })));
}

thread_local! {
    static GATE_ME: std::cell::Cell<bool> = const { std::cell::Cell::new(false) };
}
/// (the gated thread has reached point 11, it may go on)
static GATE: Mutex<(bool, bool)> = Mutex::new((false, false));
static GATE_CV: std::sync::Condvar = std::sync::Condvar::new();

const N_GATED: usize = 6;
const GATED_NAMES: [&str; N_GATED] = [
    "owner dropped, free flush guard alive, 2 force-flush guards: A held between take and run, B drops the other",
    "same, the flush guard sits in a wait-mode slot guard and the owner was finished by Instrumented::emit",
    "same, owner turned into handles, all dropped",
    "owner alive, flush guard alive: force-flush thread A held between take and run, B drops the owner",
    "owner dropped, flush guard alive, 3 force-flush guards: A held, B and C drop theirs",
    "wait-mode slot guard A parked inside its value's close() (before the send); owner and free flush guard dropped meanwhile",
];

/// A gated schedule (deterministic): thread A drops a force-flush guard and is held at perturbation point 11 (closure
/// taken, not yet run); then the B threads do their drops; the harness waits a bounded time for them to return, lets A
/// go on and joins everybody.  In the code as it is, a second force-flush drop blocks on the mutex until A has run the
/// closure (and appended); a B that returns earlier with the owner gone and nothing appended is what the history
/// oracles reject (`trace:force-late`).  The bounded wait only costs time in the passing case.
/// Gated close (kind 5): the slot guard's thread parks inside `CloseValue::close()` — before `tx.send`, so outside hook
/// point 13 —, the owner and the free flush guard are dropped meanwhile, then `close()` goes on.  The guard still holds its
/// flush guard while parked, so the entry must be appended only after its send, with the value.
fn run_gated_close() -> TraceOut {
    let case = Case { init: [3, 6], ops: vec![Op::Fg, Op::Open(0, true, 0), Op::Gm(0, 9), Op::Fg, Op::Mut(4)] };
    let hist = Arc::new(Mutex::new(Vec::<String>::new()));
    let sink = RecSink { hist: Some(hist.clone()), ..Default::default() };
    let (mut w, done_setup) = setup_world(&case, sink, &hist);
    let Ok(setup_ops) = done_setup else {
        return TraceOut { setup: case.ops.clone(), hist: hist.lock().unwrap().clone(), racers: 0, panicked: done_setup.err() };
    };
    let mut g = w.guards[0].take().expect("gated close setup opened slot 0");
    let gate = Arc::new(CloseGate::default());
    g.val.gate = Some(gate.clone());
    let log = |s: String| hist.lock().unwrap().push(s);
    let mut panicked = None;
    std::thread::scope(|sc| {
        let h = hist.clone();
        let a = sc.spawn(move || {
            let log = |s: String| h.lock().unwrap().push(s);
            catch(move || {
                log("bG:0".into());
                drop(g);
                log("eG:0".into());
            })
        });
        gate.wait_reached(gate_wait());
        let r = catch(|| {
            log("bR".into());
            drop(w.owner.take());
            log("eR".into());
            for f in w.fgs.drain(..) {
                log("bF".into());
                drop(f);
                log("eF".into());
            }
        });
        gate.release();
        if let Err(p) = r {
            panicked = Some(p);
        }
        if let Ok(Err(p)) = a.join() {
            panicked = Some(p);
        }
    });
    let h = hist.lock().unwrap().clone();
    TraceOut { setup: setup_ops, hist: h, racers: 3, panicked }
}

fn run_gated(kind: u8) -> TraceOut {
    if kind == 5 {
        return run_gated_close();
    }
    let setup: Vec<Op> = match kind {
        0 => vec![Op::Fg, Op::Dg, Op::Dg, Op::Mut(5), Op::Dref],
        1 => vec![Op::Fg, Op::Open(0, true, 0), Op::Dg, Op::Dg, Op::Gm(0, 9), Op::Fin(1, 0)],
        2 => vec![Op::Fg, Op::Dg, Op::Dg, Op::Hnd, Op::Cl, Op::Hit(4), Op::Dref, Op::Dref],
        3 => vec![Op::Fg, Op::Dg, Op::Mut(8)],
        _ => vec![Op::Fg, Op::Dg, Op::Dg, Op::Dg, Op::Dref],
    };
    let case = Case { init: [3, 6], ops: setup };
    PERTURB.store(kind as u64, Ordering::Relaxed);
    let hist = Arc::new(Mutex::new(Vec::<String>::new()));
    let sink = RecSink { hist: Some(hist.clone()), ..Default::default() };
    let (mut w, done_setup) = setup_world(&case, sink, &hist);
    let Ok(setup_ops) = done_setup else {
        return TraceOut { setup: case.ops.clone(), hist: hist.lock().unwrap().clone(), racers: 0, panicked: done_setup.err() };
    };
    *GATE.lock().unwrap() = (false, false);
    let a = w.dgs.pop().expect("gated setup has a force-flush guard");
    let mut others: Vec<Racer> = vec![];
    if kind == 3 {
        others.push(Racer::Own(w.owner.take().unwrap(), 0, 0));
    } else {
        for d in w.dgs.drain(..) {
            others.push(Racer::Dg(d));
        }
    }
    let n_b = others.len();
    let panics = Arc::new(Mutex::new(Vec::<String>::new()));
    std::thread::scope(|sc| {
        let h = hist.clone();
        let pa = panics.clone();
        sc.spawn(move || {
            GATE_ME.with(|g| g.set(true));
            let log = |s: String| h.lock().unwrap().push(s);
            if let Err(p) = catch(move || {
                log("bD".into());
                drop(a);
                log("eD".into());
            }) {
                pa.lock().unwrap().push(p);
            }
            GATE_ME.with(|g| g.set(false));
        });
        // wait until A is held (bounded: if A never gets there — no closure to take — go on anyway)
        {
            let st = GATE.lock().unwrap();
            let _ = GATE_CV.wait_timeout_while(st, std::time::Duration::from_secs(5), |st| !st.0).unwrap();
        }
        let (tx, rx) = std::sync::mpsc::channel::<()>();
        for r in others {
            let h = hist.clone();
            let pa = panics.clone();
            let tx = tx.clone();
            sc.spawn(move || {
                let log = |s: String| h.lock().unwrap().push(s);
                if let Err(p) = catch(move || match r {
                    Racer::Own(o, k, v) => {
                        log("bR".into());
                        finish_in(0, 0, o, k, v);
                        log("eR".into());
                    }
                    Racer::Dg(x) => {
                        log("bD".into());
                        drop(x);
                        log("eD".into());
                    }
                    _ => unreachable!(),
                }) {
                    pa.lock().unwrap().push(p);
                }
                let _ = tx.send(());
            });
        }
        // bounded wait for the B threads to return (they block on the mutex in the code as it is)
        let deadline = std::time::Instant::now() + std::time::Duration::from_millis(120);
        let mut returned = 0;
        while returned < n_b {
            let left = deadline.saturating_duration_since(std::time::Instant::now());
            if rx.recv_timeout(left).is_err() {
                break;
            }
            returned += 1;
        }
        if kind != 3 {
            GATED_B_RETURNED_WHILE_HELD.fetch_add(returned as u64, Ordering::Relaxed);
        }
        // let A run the closure
        let mut st = GATE.lock().unwrap();
        st.1 = true;
        GATE_CV.notify_all();
    });
    // whatever is left (flush guards, slot guards) is dropped afterwards, on this thread
    let log = |s: String| hist.lock().unwrap().push(s);
    for i in 0..NSLOTS {
        if let Some(g) = w.guards[i].take() {
            log(format!("bG:{i}"));
            drop(g);
            log(format!("eG:{i}"));
        }
    }
    for f in w.fgs.drain(..) {
        log("bF".into());
        drop(f);
        log("eF".into());
    }
    let panicked = panics.lock().unwrap().first().cloned();
    let h = hist.lock().unwrap().clone();
    TraceOut { setup: setup_ops, hist: h, racers: n_b + 1, panicked }
}

static GATED_B_RETURNED_WHILE_HELD: AtomicU64 = AtomicU64::new(0);

enum Racer {
    /// a discard-mode slot guard whose value's `close()` panics (contained); makes no observation: for the history the
    /// guard simply never hands a value back (the slot must be absent from the entry)
    Bomb(SlotGuard<Child>),
    Own(Owner, u8, u64),
    Ref(Box<dyn Send>),
    Fg(FlushGuard),
    Dg(Pin<Box<ForceFlushGuard>>),
    Sg(usize, SlotGuard<Child>, Option<u64>),
}

struct TraceOut {
    setup: Vec<Op>,
    hist: Vec<String>,
    racers: usize,
    panicked: Option<String>,
}

/// Runs the setup on this thread, then drops everything that is left on one thread each.
/// the single-threaded setup of a trace: runs the valid operations of `c`, logging their observations; returns the
/// world and the operations executed (or the panic message of the operation that panicked)
fn setup_world(c: &Case, sink: RecSink, hist: &Arc<Mutex<Vec<String>>>) -> (World, Result<Vec<Op>, String>) {
    let mut w = new_world_with(c.init, sink, ctor_of(&c.ops));
    let mut sh = Shadow::new();
    let mut setup = vec![];
    let log = |s: String| hist.lock().unwrap().push(s);
    for op in &c.ops {
        if !sh.valid(op) {
            continue;
        }
        // observations before the operation
        match *op {
            Op::Dref => log("bR".into()),
            Op::Fin(k, v) => {
                if finisher_mutates(k) {
                    log(format!("mut:{v}"))
                }
                log("bR".into())
            }
            Op::Dfg => log("bF".into()),
            Op::Ddg => log("bD".into()),
            Op::Gd(i) => log(format!("bG:{i}")),
            Op::Gm(i, v) => log(format!("gm:{i}:{v}")),
            Op::Mut(v) => log(format!("mut:{v}")),
            Op::Hit(v) => log(format!("hit:{v}")),
            _ => {}
        }
        let r = catch(|| w.exec(op));
        let (_, open_ok, ready) = match r {
            Ok(x) => x,
            Err(p) => {
                let msg = format!("{}: {p}", op.enc());
                return (w, Err(msg));
            }
        };
        sh.apply(op, open_ok, ready);
        setup.push(*op);
        match *op {
            Op::Fg => log("nF".into()),
            Op::Dg => log("nD".into()),
            Op::Cl => log("nR".into()),
            Op::Dref | Op::Fin(..) => log("eR".into()),
            Op::Dfg => log("eF".into()),
            Op::Ddg => log("eD".into()),
            Op::Gd(i) => log(format!("eG:{i}")),
            Op::Open(i, wmode, v0) => {
                let m = if wmode { "w" } else { "d" };
                if open_ok {
                    let v = if i < 2 { c.init[i] } else { v0 };
                    log(format!("opn:{i}:{m}:{v}"))
                } else {
                    log(format!("opnFail:{m}"))
                }
            }
            Op::Delay(i) => log(format!("delay:{i}")),
            _ => {}
        }
    }
    (w, Ok(setup))
}

fn run_trace(c: &Case, pseed: u64) -> TraceOut {
    PERTURB.store(pseed, Ordering::Relaxed);
    let hist = Arc::new(Mutex::new(Vec::<String>::new()));
    let sink = RecSink { hist: Some(hist.clone()), ..Default::default() };
    let (mut w, done) = setup_world(c, sink, &hist);
    let setup = match done {
        Ok(ops) => ops,
        Err(p) => return TraceOut { setup: vec![], hist: hist.lock().unwrap().clone(), racers: 0, panicked: Some(p) },
    };
    // a pending future borrows the owner: cancel it (the client would have to, before moving the owner)
    w.fut.take();
    let mut racers: Vec<Racer> = vec![];
    let mut prng = Rng::new(pseed);
    if let Some(o) = w.owner.take() {
        racers.push(Racer::Own(o, prng.below(N_FINISHERS as u64) as u8, prng.below(100)));
    }
    for h in w.handles.drain(..) {
        racers.push(Racer::Ref(Box::new(h)));
    }
    for f in w.fgs.drain(..) {
        racers.push(Racer::Fg(f));
    }
    for d in w.dgs.drain(..) {
        racers.push(Racer::Dg(d));
    }
    // which live guards hold a flush guard (wait mode), read off the setup
    let mut wait_mode = [false; NSLOTS];
    for op in &setup {
        match *op {
            Op::Open(i, w, _) if !wait_mode[i] => wait_mode[i] = w,
            Op::Delay(i) => wait_mode[i] = true,
            _ => {}
        }
    }
    for i in 0..NSLOTS {
        if let Some(mut g) = w.guards[i].take() {
            if !wait_mode[i] && prng.chance(1, 6) {
                // discard mode: the guard's unwind releases nothing, so no second panic can meet it whatever the code does
                g.val.bomb = true;
                TRACE_BOMBS.fetch_add(1, Ordering::Relaxed);
                racers.push(Racer::Bomb(g));
                continue;
            }
            let m = if prng.chance(1, 2) { Some(prng.below(100)) } else { None };
            racers.push(Racer::Sg(i, g, m));
        }
    }
    let n = racers.len();
    // where each racer's drop runs: half of the traces stay on plain threads, in the others every racer draws
    let any_bomb = racers.iter().any(|r| matches!(r, Racer::Bomb(_)));
    // (with a panicking `close()` in the race every drop is a plain drop: only one panic may ever be in flight)
    let envs: Vec<(u8, u8)> = if any_bomb || prng.chance(1, 2) {
        vec![(0, 0); n]
    } else {
        (0..n).map(|_| (prng.below(N_ENVS as u64) as u8, if prng.chance(1, 2) { prng.below(N_PANICS as u64) as u8 } else { 0 })).collect()
    };
    let barrier = Arc::new(std::sync::Barrier::new(n.max(1)));
    let panics = Arc::new(Mutex::new(Vec::<String>::new()));
    std::thread::scope(|sc| {
        for (r, (env, pm)) in racers.into_iter().zip(envs.iter().copied()) {
            TRACE_ENVS[env as usize].fetch_add(1, Ordering::Relaxed);
            let barrier = barrier.clone();
            let hist = hist.clone();
            let panics = panics.clone();
            sc.spawn(move || {
                let log = |s: String| hist.lock().unwrap().push(s);
                barrier.wait();
                jitter();
                let res = catch(move || match r {
                    Racer::Bomb(g) => bomb_drop(0, 0, g),
                    Racer::Own(o, k, v) => {
                        if finisher_mutates(k) {
                            log(format!("mut:{v}"));
                        }
                        log("bR".into());
                        finish_in(env, pm, o, k, v);
                        log("eR".into());
                    }
                    Racer::Ref(x) => {
                        log("bR".into());
                        release(env, pm, x);
                        log("eR".into());
                    }
                    Racer::Fg(x) => {
                        log("bF".into());
                        release(env, pm, x);
                        log("eF".into());
                    }
                    Racer::Dg(x) => {
                        log("bD".into());
                        release(env, pm, x);
                        log("eD".into());
                    }
                    Racer::Sg(i, mut g, m) => {
                        if let Some(v) = m {
                            log(format!("gm:{i}:{v}"));
                            g.val.v = v;
                            jitter();
                        }
                        log(format!("bG:{i}"));
                        release(env, pm, g);
                        log(format!("eG:{i}"));
                    }
                });
                if let Err(p) = res {
                    panics.lock().unwrap().push(p);
                }
            });
        }
    });
    let panicked = panics.lock().unwrap().first().cloned();
    let h = hist.lock().unwrap().clone();
    TraceOut { setup, hist: h, racers: n, panicked }
}

/// The property oracle on an observed history (Rust, from the statements of C06 / C13).
fn trace_oracle(hist: &[String], check_slots: bool) -> Option<(String, String)> {
    #[derive(Default, Clone)]
    struct Sl {
        opened: bool,
        wait: bool,
        gval: u64,
        gone: bool,
        sure: bool,
    }
    let (mut refs_out, mut fg_out, mut dg_begun, mut dg_ended, mut inflight) = (1i64, 0i64, 0i64, 0i64, 0i64);
    let (mut plain, mut hits, mut apps) = (0u64, 0u64, 0u64);
    // owning-reference drops begun and not returned; "some force-flush drop has returned after passing the mutex"
    let (mut refs_busy, mut forced) = (0i64, false);
    let mut sl: Vec<Sl> = vec![Sl::default(); NSLOTS];
    for (k, ev) in hist.iter().enumerate() {
        let f: Vec<&str> = ev.split(':').collect();
        let num = |i: usize| -> u64 { f[i].parse().unwrap() };
        let allowed = refs_out == 0 && (fg_out == 0 || dg_begun > 0);
        match f[0] {
            "nR" => refs_out += 1,
            "bR" => {
                refs_out -= 1;
                refs_busy += 1;
                inflight += 1
            }
            "nF" => fg_out += 1,
            "bF" => {
                fg_out -= 1;
                inflight += 1
            }
            "nD" => {}
            "bD" => {
                dg_begun += 1;
                inflight += 1
            }
            "eF" => inflight -= 1,
            "eR" => {
                inflight -= 1;
                refs_busy -= 1
            }
            "eD" => {
                inflight -= 1;
                dg_ended += 1;
                // the guard cell was alive during this whole drop (a flush guard or an owning reference had not even
                // begun to drop when it returned), so it went through the mutex: the keep-alive closure has been run
                if fg_out > 0 || refs_out > 0 {
                    forced = true
                }
            }
            "mut" => plain = num(1),
            "hit" => hits = num(1),
            "opn" => {
                let i = num(1) as usize;
                sl[i].opened = true;
                sl[i].wait = f[2] == "w";
                sl[i].gval = num(3);
            }
            "opnFail" => {
                if f[1] == "w" {
                    fg_out -= 1
                }
            }
            "delay" => {
                let i = num(1) as usize;
                if sl[i].wait {
                    fg_out -= 1
                }
                sl[i].wait = true;
            }
            "gm" => sl[num(1) as usize].gval = num(2),
            "bG" => {
                let i = num(1) as usize;
                sl[i].gone = true;
                inflight += 1;
                if sl[i].wait {
                    fg_out -= 1
                }
            }
            "eG" => {
                let i = num(1) as usize;
                inflight -= 1;
                // the guard was dropped completely while the entry could not possibly have been closed
                sl[i].sure = !allowed;
            }
            "app" => {
                apps += 1;
                if apps > 1 {
                    return Some(("trace:twice".into(), format!("observation {k}: the entry was appended a second time")));
                }
                if !allowed {
                    return Some((
                        "trace:early".into(),
                        format!("observation {k}: appended while {refs_out} owning reference(s) / {fg_out} flush guard(s) had not begun to drop and no force-flush guard had"),
                    ));
                }
                if num(1) != plain || num(2) != hits {
                    return Some(("trace:content".into(), format!("observation {k}: appended {ev}, last written plain={plain} hits={hits}")));
                }
                if check_slots {
                    for (i, v) in f[3].split(',').enumerate() {
                        let got: Option<u64> = v.parse().ok();
                        let s = &sl[i];
                        let bad = if !s.opened || !s.gone {
                            got.is_some()
                        } else if (s.wait && dg_begun == 0) || s.sure {
                            got != Some(s.gval)
                        } else {
                            got.is_some() && got != Some(s.gval)
                        };
                        if bad {
                            return Some((
                                "trace:slot".into(),
                                format!("observation {k}: slot {i} appended as {v}; opened={} wait={} guard-dropped={} before-close-for-sure={} last value {}", s.opened, s.wait, s.gone, s.sure, s.gval),
                            ));
                        }
                    }
                }
            }
            _ => return Some(("trace:harness".into(), format!("unknown observation {ev}"))),
        }
        if forced && refs_out == 0 && refs_busy == 0 && apps == 0 {
            return Some((
                "trace:force-late".into(),
                format!("observation {k} ({ev}): a force-flush guard's drop has returned (through the guard mutex) and the owner and all handles have been dropped completely, yet the sink has nothing: the entry is not appended at the moment the last of these drops returns"),
            ));
        }
        if inflight == 0 && refs_out == 0 && (fg_out == 0 || dg_ended > 0) && apps == 0 {
            return Some((
                "trace:late".into(),
                format!("observation {k} ({ev}): nothing is in flight, the owner, all handles and (all flush guards or a force-flush guard) are dropped, and the sink has nothing"),
            ));
        }
    }
    None
}

fn trace_case_line(c: &Case, pseed: u64) -> String {
    format!("trace {pseed} {}", c.encode())
}

fn decode_trace_line(s: &str) -> Option<(Case, u64)> {
    let rest = s.strip_prefix("trace ")?;
    let (p, c) = rest.split_once(' ')?;
    Some((Case::decode(c)?, p.parse().ok()?))
}

fn trace_stage(rep: &mut Report, args: &Args, rng: &mut Rng, c13: bool, replay: Option<(Case, u64)>, gated_only: Option<u8>) {
    install_perturbation();
    let only_random = replay.is_some();
    let mut todo: Vec<(Case, u64)> = vec![];
    if let Some((c, p)) = replay {
        for k in 0..300 {
            todo.push((c.clone(), p.wrapping_add(k)));
        }
    } else {
        for l in args.corpus_cases() {
            if let Some((c, p)) = decode_trace_line(&l) {
                for k in 0..20 {
                    todo.push((c.clone(), p.wrapping_add(k)));
                }
            }
        }
        let n = if args.thorough() { 40_000 } else { 1_500 };
        for i in 0..n {
            let mut c = random_setup(rng, c13 || i % 3 == 0);
            if i % 5 == 0 {
                // the classic three-way race: owner, one wait-mode slot guard, one force-flush guard (+ a late flush guard)
                c = Case { init: c.init, ops: vec![Op::Fg, Op::Open(0, true, 0), Op::Dg, Op::Fg, Op::Mut(rng.below(50))] };
            }
            todo.push((c, rng.next_u64()));
        }
    }
    let mut requests = vec![];
    let mut verdicts: Vec<(String, Option<(String, String)>)> = vec![];
    // gated (deterministic) schedules first
    let gated_rounds = if gated_only.is_some() { 3 } else if only_random { 0 } else if args.thorough() { 8 } else { 1 };
    let mut jobs: Vec<(Option<u8>, Case, u64)> = vec![];
    for _ in 0..gated_rounds {
        for k in 0..N_GATED as u8 {
            if gated_only.map(|g| g == k).unwrap_or(true) {
                jobs.push((Some(k), Case { init: [3, 6], ops: vec![] }, 0));
            }
        }
    }
    if gated_only.is_none() {
        jobs.extend(todo.iter().map(|(c, p)| (None, c.clone(), *p)));
    }
    for (g, c, p) in &jobs {
        let (t, line) = match g {
            Some(k) => {
                rep.bump(&format!("trace:gated: {}", GATED_NAMES[*k as usize]));
                (run_gated(*k), format!("gated {k}"))
            }
            None => {
                let t = run_trace(c, *p);
                let line = trace_case_line(&Case { init: c.init, ops: t.setup.clone() }, *p);
                (t, line)
            }
        };
        rep.case(&line, t.racers >= 2);
        rep.bump(&format!("trace:racers:{}", t.racers.min(9)));
        let pos = |pat: &str| t.hist.iter().position(|e| e.starts_with(pat));
        if let Some(a) = pos("app") {
            // which drop was in progress when the sink was called (the last `b*` without its `e*` is not unique; report the kind of the last begin)
            let last_begin = t.hist[..a].iter().rev().find(|e| e.starts_with('b')).map(|e| e[..2].to_string()).unwrap_or("-".into());
            rep.bump(&format!("trace:append-after-begin-of:{last_begin}"));
        } else {
            rep.bump("trace:no-append (guards left? no: everything is dropped; owner absent)");
        }
        let mut v = trace_oracle(&t.hist, true);
        if let Some(p) = &t.panicked {
            v = Some(("trace:panic".into(), format!("a drop panicked: {p}")));
        }
        if verdicts.len() % 499 == 0 {
            rep.sample(json!({"case": line, "history": t.hist.join(" ")}));
        }
        requests.push(format!("trace {NSLOTS} | {}", t.hist.join(" ")));
        verdicts.push((line, v));
    }
    rep.bump_by("trace:gated: force-flush drops that returned while the closure holder was held (0 in the code as it is)", GATED_B_RETURNED_WHILE_HELD.load(Ordering::Relaxed));
    for (i, h) in TRACE_ENVS.iter().enumerate() {
        rep.bump_by(&format!("trace:racer drops run in: {}", ENV_NAMES[i]), h.load(Ordering::Relaxed));
    }
    for (i, h) in PANIC_DROPS.iter().enumerate() {
        rep.bump_by(&format!("drop operations released by: {} (all stages so far)", PANIC_NAMES[i]), h.load(Ordering::Relaxed));
    }
    rep.bump_by("slot-guard drops whose close() panicked (contained; all stages, this process)", BOMB_DROPS.load(Ordering::Relaxed));
    rep.bump_by("trace:racers that were slot guards with a panicking close()", TRACE_BOMBS.load(Ordering::Relaxed));
    rep.bump_by("histories run in the child process (a destructor panics in them)", CHILD_CASES.load(Ordering::Relaxed));
    rep.bump_by("histories that did not complete within the time limit (keepalive:hang, seen by this process)", HANGS.load(Ordering::Relaxed));
    rep.bump_by("gated close() never entered (this process)", UNPARKED.load(Ordering::Relaxed));
    rep.bump_by("… of which aborted the child process", CHILD_ABORTS.load(Ordering::Relaxed));
    rep.bump_by("coop budget exhaustions performed (all stages so far)", BUDGET_EXHAUSTIONS.load(Ordering::Relaxed));
    rep.bump_by("wait_for_data polls that yielded on an exhausted budget and were polled again", YIELDS_REPOLLED.load(Ordering::Relaxed));
    rep.bump_by("… of which had woken their waker before the poll returned", YIELDS_WOKEN_AT_ONCE.load(Ordering::Relaxed));
    for (i, h) in POINT_HITS.iter().enumerate() {
        rep.bump_by(&format!("trace:perturbation point {} hits", 10 + i), h.load(Ordering::Relaxed));
    }
    let replies = run_driver(&args.driver, "keepalive", &requests);
    if replies.is_none() {
        rep.driver_available = false;
    }
    for (k, (line, v)) in verdicts.iter().enumerate() {
        let lean = replies.as_ref().map(|r| r[k].clone());
        if let Some(l) = &lean {
            rep.traces_validated += 1;
            let rust_rejects = v.is_some();
            // a panic is not part of the history: nothing to compare
            let panicked = matches!(v, Some((k, _)) if k == "trace:panic");
            if !panicked && (l != "accept") != rust_rejects {
                rep.disagreement(
                    "keepalive/trace-spec",
                    &format!("{line} ## history: {}", requests[k]),
                    &match v {
                        Some((k, w)) => format!("rust oracle rejects: {k}: {w}"),
                        None => "rust oracle accepts".into(),
                    },
                    l,
                );
            }
        }
        if let Some((key, what)) = v {
            // slot contents are C13's business: under C06 they are judged (both oracles agree) but not reported
            if c13 || key != "trace:slot" {
                rep.oracle_failure(key, line, &requests[k], what);
            } else {
                rep.bump("trace:slot finding left to C13");
            }
        }
    }
}

fn random_setup(rng: &mut Rng, slots: bool) -> Case {
    let mut c = random_case_opts(rng, slots, false, 16);
    // keep most objects for the race: usually no guard is dropped during the setup (but a force-flush guard
    // dropped early gives the "late guards" situation, so those stay more often)
    if rng.chance(3, 4) {
        let keep_ddg = rng.chance(1, 2);
        c.ops.retain(|o| !matches!(o, Op::Dfg | Op::Gd(_)) && (keep_ddg || !matches!(o, Op::Ddg)));
    }
    // keep the owner (or a handle) for the race in most cases
    if rng.chance(7, 8) {
        let mut refs = 1i64;
        c.ops.retain(|o| match o {
            Op::Cl => {
                refs += 1;
                true
            }
            Op::Dref | Op::Fin(..) => {
                if refs > 1 {
                    refs -= 1;
                    true
                } else {
                    false
                }
            }
            _ => true,
        });
    }
    c
}

fn main() {
    // KEEPALIVE_LOUD=1 keeps the default panic hook (debugging the engine itself)
    if std::env::var_os("KEEPALIVE_LOUD").is_none() {
        quiet_panics();
    }
    let args = Args::parse();
    if args.extra.contains_key("child") {
        return child_main();
    }
    let c13 = args.property == "C13";
    let mut rep = Report::new(
        &args,
        "keepalive",
        "case = operation history on one real AppendAndCloseOnDrop (T-step) or a threaded drop race (T-trace);          non-trivial = when the last owning reference was dropped a flush guard, slot guard or force-flush guard was          still alive, or the owner had been turned into handles (T-step) / at least two drops raced (T-trace); distinct by case text",
    );
    let mut rng = Rng::new(args.seed);
    let mut cases: Vec<Case> = vec![];
    let mut trace_replay = None;
    let mut gated_replay: Option<u8> = None;
    // `--only step` / `--only trace` restrict the run to one stage (used to measure each stage's sensitivity)
    let only = args.extra.get("only").cloned().unwrap_or_default();
    let mut run_traces = only != "step";
    if let Some(line) = args.replay_case() {
        // a correspondence replay may carry a suffix after ` ## `
        let line = line.split(" ## ").next().unwrap().to_string();
        if line.starts_with("trace ") {
            trace_replay = decode_trace_line(&line);
        } else if let Some(k) = line.strip_prefix("gated ") {
            gated_replay = k.trim().parse().ok();
        } else {
            cases.extend(Case::decode(&line));
            run_traces = false;
        }
    } else {
        for l in args.corpus_cases() {
            if l.starts_with("trace ") {
                continue;
            }
            match Case::decode(&l) {
                Some(c) => cases.push(c),
                None => rep.notes.push(format!("corpus line not understood: {l}")),
            }
        }
        // every corpus history again with its drops / polls in every non-plain environment
        let plain: Vec<Case> = cases.iter().filter(|c| !c.ops.iter().any(|o| matches!(o, Op::Env(..)))).cloned().collect();
        for c in &plain {
            for e in 0..N_ENVS as u8 {
                for w in 0..4u8 {
                    for pm in 0..N_PANICS as u8 {
                        // polls are never "panicked"; (plain thread, plain drop) is the corpus line itself
                        if (e == 0 && pm == 0) || (w == 2 && pm != 0) {
                            continue;
                        }
                        let mut ops = vec![Op::Env(e, w, pm)];
                        ops.extend(c.ops.iter().cloned());
                        cases.push(Case { init: c.init, ops });
                    }
                }
            }
        }
        rep.bump_by("corpus cases", cases.len() as u64);
        if only == "trace" {
            cases.clear();
        }
        // (1) exhaustive maximal histories of the property's family
        if only != "trace" {
        let fam = if c13 { family_c13() } else { family_c06() };
        let depth = match (c13, args.thorough()) {
            (false, false) => 7,
            (false, true) => 10,
            (true, false) => 6,
            (true, true) => 8,
        };
        let mut all: Vec<Vec<Op>> = vec![];
        enumerate(&fam, depth, &mut |ops| all.push(ops.to_vec()));
        rep.bump_by(&format!("exhaustive histories depth {depth}"), all.len() as u64);
        for ops in all {
            cases.push(Case { init: [3, 6], ops });
        }
        // (1b) the same for failing guards / replaced slot fields (both properties)
        let depth_x = if args.thorough() { 7 } else { 6 };
        let mut all_x: Vec<Vec<Op>> = vec![];
        enumerate(&family_x(), depth_x, &mut |ops| all_x.push(ops.to_vec()));
        rep.bump_by(&format!("exhaustive histories with failing / orphaned guards depth {depth_x}"), all_x.len() as u64);
        for ops in all_x {
            cases.push(Case { init: [3, 6], ops });
        }
        rep.exhaustive = false;
        // (2) random histories with both kinds of operations
        let n_rand = if args.thorough() { 400_000 } else { 12_000 };
        for i in 0..n_rand {
            let slots = if c13 { i % 8 != 0 } else { i % 4 == 0 };
            cases.push(random_case(&mut rng, slots));
        }
        }
    }

    let shards = if args.thorough() { 12 } else { 3 };
    let chunk = cases.len().div_ceil(shards).max(1);
    let outs: Vec<ShardOut> = std::thread::scope(|sc| {
        let hs: Vec<_> = cases.chunks(chunk).map(|ch| { let a = &args; sc.spawn(move || process(ch, a, c13)) }).collect();
        hs.into_iter().map(|h| h.join().expect("shard")).collect()
    });
    for so in outs {
        for (enc, nt, bumps) in &so.evals {
            rep.case(enc, *nt);
            for b in bumps {
                rep.bump(b);
            }
        }
        for s in so.samples {
            rep.sample(s);
        }
        for (key, case, imp, what) in &so.failures {
            rep.oracle_failure(key, case, imp, what);
        }
        for (case, imp, model) in &so.disagreements {
            rep.disagreement("keepalive/step", case, imp, model);
        }
        if !so.driver_ok {
            rep.driver_available = false;
        }
    }
    if run_traces {
        trace_stage(&mut rep, &args, &mut rng, c13, trace_replay, gated_replay);
    }
    // targeted search: the model and the code disagree but no property oracle failed — look for a failing
    // input among the neighbours of the disagreeing histories (oracle only, ~10x the quick budget)
    if rep.oracle_failures.is_empty() && !rep.disagreements.is_empty() {
        let seeds: Vec<Case> = rep
            .disagreements
            .iter()
            .filter_map(|d| {
                let l = d.case.split(" ## ").next().unwrap();
                let l = l.strip_prefix("trace ").and_then(|r| r.split_once(' ')).map(|x| x.1).unwrap_or(l);
                Case::decode(l)
            })
            .take(5)
            .collect();
        let mut alphabet = family_c06().alphabet;
        alphabet.extend(family_c13().alphabet);
        for k in 0..N_FINISHERS {
            alphabet.push(Op::Fin(k as u8, 13));
        }
        for i in 0..NSLOTS {
            alphabet.extend([Op::Open(i, true, 7), Op::Open(i, false, 7), Op::Gd(i), Op::Gm(i, 11), Op::Delay(i)]);
        }
        let budget = 400_000u64;
        'search: for k in 0..budget {
            if seeds.is_empty() {
                break;
            }
            let base = &seeds[(k as usize) % seeds.len()];
            let mut ops = base.ops.clone();
            for _ in 0..rng.range(1, 4) {
                match rng.below(3) {
                    0 if !ops.is_empty() => {
                        let i = rng.below(ops.len() as u64) as usize;
                        ops.remove(i);
                    }
                    1 if !ops.is_empty() => {
                        let i = rng.below(ops.len() as u64) as usize;
                        ops[i] = *rng.pick(&alphabet);
                    }
                    _ => {
                        let i = rng.below(ops.len() as u64 + 1) as usize;
                        ops.insert(i, *rng.pick(&alphabet));
                    }
                }
            }
            // complete clean-up so that "never appended" shows
            ops.extend([Op::Wc, Op::Dref, Op::Dref, Op::Dref, Op::Dfg, Op::Dfg, Op::Dfg, Op::Ddg, Op::Ddg, Op::Gd(0), Op::Gd(1), Op::Gd(2), Op::Gd(3)]);
            let c = Case { init: base.init, ops };
            rep.search_cases += 1;
            let o = run_case(&c, c13);
            if let Some((key, _)) = &o.fail {
                let small = shrink_case(&Case { init: c.init, ops: o.ops.clone() }, c13, key);
                let oo = run_case(&small, c13);
                let what = oo.fail.as_ref().map(|f| f.1.clone()).unwrap_or_default();
                rep.oracle_failure(key, &Case { init: small.init, ops: oo.ops.clone() }.encode(), &oo.impl_line(), &what);
                rep.search_found = true;
                break 'search;
            }
        }
    }
    rep.write(&args);
}
