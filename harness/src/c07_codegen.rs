// (included by c07.rs) Rust code generator for harness/gen_c07/src/bin/g<i>.rs

/// names of the Rust types generated for one definition tree (parallel to the tree)
#[derive(Clone, Debug)]
pub enum NT {
    Leaf,
    /// type name, and per variant (a struct has one) per field the names below
    Ty(String, Vec<Vec<NT>>),
}

fn lit(s: &str) -> String {
    format!("{s:?}")
}

fn style_sig(s: Style) -> &'static str {
    s.tok()
}

fn fval_sig(v: &FVal, out: &mut String) {
    match v {
        FVal::Num(t, _) => {
            let _ = write!(out, "N{}", t.tok());
        }
        FVal::Str { owned, .. } => out.push_str(if *owned { "QO" } else { "Q" }),
        FVal::Variant { style, variants, .. } => {
            let _ = write!(out, "V{}[", style_sig(*style));
            for (id, ov) in variants {
                let _ = write!(out, "{id}/{ov:?},");
            }
            out.push(']');
        }
        FVal::Newtype { unit, inner } => {
            let _ = write!(out, "W{unit:?}(");
            fval_sig(inner, out);
            out.push(')');
        }
        FVal::Opt { inner, .. } => {
            out.push_str("O(");
            fval_sig(inner, out);
            out.push(')');
        }
    }
}

fn field_sig(f: &Field, out: &mut String) {
    match f {
        Field::Plain { ident, name, unit, sg, v } => {
            let _ = write!(out, "P{ident}/{name:?}/{unit:?}/{sg}/");
            fval_sig(v, out);
        }
        Field::Ignore => out.push('G'),
        Field::Timestamp => out.push('T'),
        Field::Flatten { pfx, optional, wrap, child, .. } => {
            let _ = write!(out, "F{pfx:?}/{optional}/{wrap:?}/");
            def_sig(child, out);
        }
        Field::FlattenEntry { .. } => out.push('R'),
    }
    out.push(';');
}

fn def_sig(d: &Def, out: &mut String) {
    match d {
        Def::Struct { a, fields } => {
            let _ = write!(out, "S{}/{:?}{{", style_sig(a.style), a.pfx);
            for f in fields {
                field_sig(f, out);
            }
            out.push('}');
        }
        Def::Enum { a, tag, variants, .. } => {
            let _ = write!(out, "E{}/{:?}/{tag:?}{{", style_sig(a.style), a.pfx);
            for v in variants {
                let _ = write!(out, "{}/{:?}/{}(", v.ident, v.name, v.tuple);
                for f in &v.fields {
                    field_sig(f, out);
                }
                out.push(')');
            }
            out.push('}');
        }
    }
}

/// everything of an instance that determines its Rust *types* (not the values)
pub fn type_sig(d: &Def) -> String {
    let mut s = String::new();
    def_sig(d, &mut s);
    s
}

#[derive(Default)]
pub struct Codegen {
    types: String,
    fns: String,
    ids: Vec<usize>,
    next_ty: usize,
    pub type_count: usize,
    /// > 0 while emitting the types below a `Cow` (the closed child must be `Clone` = `ToOwned`)
    clone_depth: u32,
    sigs: std::collections::HashMap<String, NT>,
}

impl Codegen {
    pub fn new() -> Codegen {
        Codegen::default()
    }
    fn fresh(&mut self) -> String {
        self.next_ty += 1;
        self.type_count += 1;
        format!("T{}", self.next_ty)
    }

    fn derive(&self) -> &'static str {
        if self.clone_depth > 0 { "#[derive(Clone)]\n" } else { "" }
    }

    fn container_attrs(&self, mode: &str, a: &Attrs, tag: &Option<Tag>) -> String {
        let mut parts: Vec<String> = vec![];
        if !mode.is_empty() {
            parts.push(mode.to_string());
        }
        if let Some(t) = tag {
            parts.push(format!(
                "tag({} = {}{})",
                if t.exact { "name_exact" } else { "name" },
                lit(&t.name),
                if t.sg { ", sample_group" } else { "" }
            ));
        }
        if let Some(r) = a.style.attr() {
            parts.push(format!("rename_all = {}", lit(r)));
        }
        match &a.pfx {
            Some(Pfx::Infl(p)) => parts.push(format!("prefix = {}", lit(p))),
            Some(Pfx::Exact(p)) => parts.push(format!("exact_prefix = {}", lit(p))),
            None => {}
        }
        if parts.is_empty() { "#[metrics]".to_string() } else { format!("#[metrics({})]", parts.join(", ")) }
    }

    /// emits the types a field value needs, returns (names, Rust type)
    fn fval_types(&mut self, v: &FVal, sample_group: bool) -> (NT, String) {
        match v {
            FVal::Num(t, _) => (
                NT::Leaf,
                match t {
                    NumTy::U64 => "u64",
                    NumTy::Usize => "usize",
                    NumTy::Bool => "bool",
                    NumTy::F64 => "f64",
                    NumTy::Duration => "std::time::Duration",
                }
                .to_string(),
            ),
            FVal::Str { owned, .. } => (NT::Leaf, if *owned { "String" } else { "&'static str" }.to_string()),
            FVal::Variant { style, variants, .. } => {
                let name = self.fresh();
                let mut attrs = vec!["value(string)".to_string()];
                if let Some(r) = style.attr() {
                    attrs.push(format!("rename_all = {}", lit(r)));
                }
                let _ = writeln!(self.types, "#[metrics({})]\n{}pub enum {name} {{", attrs.join(", "), self.derive());
                for (id, ov) in variants {
                    match ov {
                        Some(n) => {
                            let _ = writeln!(self.types, "    #[metrics(name = {})] {id},", lit(n));
                        }
                        None => {
                            let _ = writeln!(self.types, "    {id},");
                        }
                    }
                }
                self.types.push_str("}\n");
                (NT::Ty(name.clone(), vec![]), name)
            }
            FVal::Newtype { unit, inner } => {
                let (int, ity) = self.fval_types(inner, sample_group);
                let name = self.fresh();
                let u = match unit {
                    Some(u) => format!("#[metrics(unit = metrique::unit::{u})] "),
                    None => String::new(),
                };
                let _ = writeln!(
                    self.types,
                    "#[metrics(value{})]\n{}pub struct {name}({u}pub {ity});",
                    if sample_group { ", sample_group" } else { "" },
                    self.derive()
                );
                (NT::Ty(name.clone(), vec![vec![int]]), name)
            }
            FVal::Opt { inner, .. } => {
                let (int, ity) = self.fval_types(inner, sample_group);
                (int, format!("Option<{ity}>"))
            }
        }
    }

    /// one field declaration (`named`: struct / struct variant; otherwise tuple position)
    fn field_decl(&mut self, f: &Field, idx: usize, named: bool, vis: &str) -> (NT, String) {
        let (nt, attr, ident, ty) = match f {
            Field::Plain { ident, name, unit, sg, v } => {
                let (nt, ty) = self.fval_types(v, *sg);
                let mut parts = vec![];
                if let Some(n) = name {
                    parts.push(format!("name = {}", lit(n)));
                }
                if let Some(u) = unit {
                    parts.push(format!("unit = metrique::unit::{u}"));
                }
                if *sg {
                    parts.push("sample_group".to_string());
                }
                let attr = if parts.is_empty() { String::new() } else { format!("#[metrics({})] ", parts.join(", ")) };
                (nt, attr, ident.clone(), ty)
            }
            Field::Ignore => (NT::Leaf, "#[metrics(ignore)] ".to_string(), format!("zz{idx}"), "u8".to_string()),
            Field::Timestamp => {
                (NT::Leaf, "#[metrics(timestamp)] ".to_string(), format!("zz{idx}"), "std::time::SystemTime".to_string())
            }
            Field::Flatten { pfx, optional, wrap, child, .. } => {
                if wrap.needs_clone() {
                    self.clone_depth += 1;
                }
                let nt = self.def_types(child, false);
                if wrap.needs_clone() {
                    self.clone_depth -= 1;
                }
                let NT::Ty(cname, _) = &nt else { unreachable!() };
                let p = match pfx {
                    None => String::new(),
                    Some(Pfx::Infl(p)) => format!(", prefix = {}", lit(p)),
                    Some(Pfx::Exact(p)) => format!(", exact_prefix = {}", lit(p)),
                };
                let inner = match wrap {
                    Wrap::Owned => cname.clone(),
                    Wrap::Ref => format!("WRef<{cname}>"),
                    Wrap::Box => format!("WBox<{cname}>"),
                    Wrap::Arc => format!("WArc<{cname}>"),
                    Wrap::Cow => format!("WCow<{cname}>"),
                    Wrap::ForceFlag => format!("metrique::writer::core::value::ForceFlag<{cname}, NoFlags>"),
                    Wrap::WithDims => format!("metrique::writer::core::value::WithDimensions<{cname}, 1>"),
                    Wrap::Mutex => format!("std::sync::Mutex<{cname}>"),
                    Wrap::StdArc => format!("std::sync::Arc<{cname}>"),
                    Wrap::NoCloseArc => format!("std::sync::Arc<<{cname} as CloseValue>::Closed>"),
                    Wrap::RealCow => format!("std::borrow::Cow<'static, <{cname} as CloseValue>::Closed>"),
                };
                let no_close = if *wrap == Wrap::NoCloseArc { ", no_close" } else { "" };
                let ty = if *optional { format!("Option<{inner}>") } else { inner };
                (nt, format!("#[metrics(flatten{no_close}{p})] "), format!("zz{idx}"), ty)
            }
            Field::FlattenEntry { .. } => {
                (NT::Leaf, "#[metrics(flatten_entry)] ".to_string(), format!("zz{idx}"), "RawEntry".to_string())
            }
        };
        let decl = if named { format!("{attr}{vis}{ident}: {ty}") } else { format!("{attr}{ty}") };
        (nt, decl)
    }

    fn def_types(&mut self, d: &Def, root: bool) -> NT {
        let name = self.fresh();
        let mode = if root { "" } else { "subfield" };
        match d {
            Def::Struct { a, fields } => {
                let mut nts = vec![];
                let mut decls = vec![];
                for (i, f) in fields.iter().enumerate() {
                    let (nt, decl) = self.field_decl(f, i, true, "pub ");
                    nts.push(nt);
                    decls.push(decl);
                }
                let _ = writeln!(self.types, "{}\n{}pub struct {name} {{", self.container_attrs(mode, a, &None), self.derive());
                for dcl in decls {
                    let _ = writeln!(self.types, "    {dcl},");
                }
                self.types.push_str("}\n");
                NT::Ty(name, vec![nts])
            }
            Def::Enum { a, tag, variants, .. } => {
                let mut all = vec![];
                let mut body = String::new();
                for v in variants {
                    let mut nts = vec![];
                    let mut decls = vec![];
                    for (i, f) in v.fields.iter().enumerate() {
                        let (nt, decl) = self.field_decl(f, i, !v.tuple, "");
                        nts.push(nt);
                        decls.push(decl);
                    }
                    let attr = match &v.name {
                        Some(n) => format!("#[metrics(name = {})] ", lit(n)),
                        None => String::new(),
                    };
                    if v.fields.is_empty() && !v.tuple {
                        let _ = writeln!(body, "    {attr}{},", v.ident);
                    } else if v.tuple {
                        let _ = writeln!(body, "    {attr}{}({}),", v.ident, decls.join(", "));
                    } else {
                        let _ = writeln!(body, "    {attr}{} {{ {} }},", v.ident, decls.join(", "));
                    }
                    all.push(nts);
                }
                let _ = writeln!(self.types, "{}\n{}pub enum {name} {{\n{body}}}", self.container_attrs(mode, a, tag), self.derive());
                NT::Ty(name, all)
            }
        }
    }

    fn fval_expr(v: &FVal, nt: &NT) -> String {
        match v {
            FVal::Num(t, n) => match t {
                NumTy::U64 => format!("{n}u64"),
                NumTy::Usize => format!("{n}usize"),
                NumTy::Bool => (*n != 0).to_string(),
                NumTy::F64 => format!("{n}f64"),
                NumTy::Duration => format!("std::time::Duration::from_secs({n})"),
            },
            FVal::Str { s, owned } => {
                if *owned {
                    format!("{}.to_string()", lit(s))
                } else {
                    lit(s)
                }
            }
            FVal::Variant { variants, sel, .. } => {
                let NT::Ty(name, _) = nt else { unreachable!() };
                format!("{name}::{}", variants[*sel].0)
            }
            FVal::Newtype { inner, .. } => {
                let NT::Ty(name, sub) = nt else { unreachable!() };
                format!("{name}({})", Self::fval_expr(inner, &sub[0][0]))
            }
            FVal::Opt { present, inner } => {
                if *present {
                    format!("Some({})", Self::fval_expr(inner, nt))
                } else {
                    "None".to_string()
                }
            }
        }
    }

    fn field_expr(f: &Field, nt: &NT) -> String {
        match f {
            Field::Plain { v, .. } => Self::fval_expr(v, nt),
            Field::Ignore => "0u8".to_string(),
            Field::Timestamp => "std::time::SystemTime::UNIX_EPOCH".to_string(),
            Field::Flatten { optional, wrap, present, child, .. } => {
                if *optional && !*present {
                    return "None".to_string();
                }
                let c = Self::def_expr(child, nt);
                let inner = match wrap {
                    Wrap::Owned => c,
                    Wrap::Ref => format!("WRef({c})"),
                    Wrap::Box => format!("WBox({c})"),
                    Wrap::Arc => format!("WArc({c})"),
                    Wrap::Cow => format!("WCow({c})"),
                    Wrap::ForceFlag => format!("metrique::writer::core::value::ForceFlag::<_, NoFlags>::from({c})"),
                    Wrap::WithDims => format!("metrique::writer::core::value::WithDimensions::new({c}, \"DimK\", \"dim-v\")"),
                    Wrap::Mutex => format!("std::sync::Mutex::new({c})"),
                    Wrap::StdArc => format!("std::sync::Arc::new({c})"),
                    Wrap::NoCloseArc => format!("std::sync::Arc::new(CloseValue::close({c}))"),
                    Wrap::RealCow => format!("std::borrow::Cow::Owned(CloseValue::close({c}))"),
                };
                if *optional { format!("Some({inner})") } else { inner }
            }
            Field::FlattenEntry { items, sg } => {
                let its: Vec<String> = items
                    .iter()
                    .map(|i| match i.num {
                        Some(n) => format!("({}, Some({n}u64), \"\")", lit(&i.name)),
                        None => format!("({}, None, {})", lit(&i.name), lit(&i.sval)),
                    })
                    .collect();
                let sgs: Vec<String> = sg.iter().map(|(k, v)| format!("({}, {})", lit(k), lit(v))).collect();
                format!("RawEntry {{ items: vec![{}], sg: vec![{}] }}", its.join(", "), sgs.join(", "))
            }
        }
    }

    fn field_ident(f: &Field, idx: usize) -> String {
        match f {
            Field::Plain { ident, .. } => ident.clone(),
            _ => format!("zz{idx}"),
        }
    }

    fn def_expr(d: &Def, nt: &NT) -> String {
        let NT::Ty(name, sub) = nt else { unreachable!() };
        match d {
            Def::Struct { fields, .. } => {
                let fs: Vec<String> = fields
                    .iter()
                    .enumerate()
                    .map(|(i, f)| format!("{}: {}", Self::field_ident(f, i), Self::field_expr(f, &sub[0][i])))
                    .collect();
                format!("{name} {{ {} }}", fs.join(", "))
            }
            Def::Enum { variants, sel, .. } => {
                let v = &variants[*sel];
                if v.fields.is_empty() && !v.tuple {
                    format!("{name}::{}", v.ident)
                } else if v.tuple {
                    let fs: Vec<String> =
                        v.fields.iter().enumerate().map(|(i, f)| Self::field_expr(f, &sub[*sel][i])).collect();
                    format!("{name}::{}({})", v.ident, fs.join(", "))
                } else {
                    let fs: Vec<String> = v
                        .fields
                        .iter()
                        .enumerate()
                        .map(|(i, f)| format!("{}: {}", Self::field_ident(f, i), Self::field_expr(f, &sub[*sel][i])))
                        .collect();
                    format!("{name}::{} {{ {} }}", v.ident, fs.join(", "))
                }
            }
        }
    }

    /// adds one instance (types are shared between instances with the same type signature)
    pub fn add(&mut self, id: usize, d: &Def) {
        let sig = type_sig(d);
        let nt = match self.sigs.get(&sig) {
            Some(nt) => nt.clone(),
            None => {
                let nt = self.def_types(d, true);
                self.sigs.insert(sig, nt.clone());
                nt
            }
        };
        let _ = writeln!(
            self.fns,
            "fn i{id}(out: &mut String) {{\n    let v = {};\n    record({id}, &RootEntry::new(v.close()), out);\n}}",
            Self::def_expr(d, &nt)
        );
        self.ids.push(id);
    }

    pub fn finish(&self) -> String {
        let mut s = String::new();
        s.push_str("// GENERATED by harness/src/bin/naming.rs — rewritten on every run\n");
        s.push_str("#![allow(non_snake_case, non_camel_case_types, dead_code, unused, deprecated, clippy::all, uncommon_codepoints, mixed_script_confusables, confusable_idents)]\n");
        s.push_str("#[path = \"../support.rs\"]\nmod support;\nuse support::{record, NoFlags, RawEntry, WArc, WBox, WCow, WRef};\nuse metrique::unit_of_work::metrics;\nuse metrique::{CloseValue, RootEntry};\n\n");
        s.push_str(&self.types);
        s.push('\n');
        s.push_str(&self.fns);
        s.push_str("\nfn main() {\n    let mut out = String::new();\n");
        for id in &self.ids {
            let _ = writeln!(s, "    i{id}(&mut out);");
        }
        s.push_str("    print!(\"{out}\");\n}\n");
        s
    }
}
