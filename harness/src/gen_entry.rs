//! `GenEntry`: a data description of an entry (the list of writer calls it makes), interpreted as a
//! real `impl Entry`; its generator; and its line-protocol encoding shared by every engine that
//! formats entries (emf, wrappers, vectored, sinks).
//!
//! Line encoding (items separated by single spaces, strings are hex of UTF-8, `-` = empty):
//!   `T<micros since epoch, may be negative>`             timestamp
//!   `CS`  allow split entries     `CO`  a config the formatter does not know
//!   `CD<set>;<set>…`  entry dimensions, set = `<hex>,<hex>…` or `.` for the empty set; `CD` = no sets
//!   `U<hexmsg>`  the in-band error report entry (`MetriqueValidationError`: AllowUnroutable + one string)
//!   `V<hexname>=S<hex>`      string value
//!   `V<hexname>=N`           value that writes nothing
//!   `V<hexname>=E<hexmsg>`   value that reports a validation error
//!   `V<hexname>=M<unit>:<flags>:<dims>:<obs>`  unit = `n` | `u<hex of unit name>`; flags = `-`|`h`|`x`;
//!        dims = `<hexk>~<hexv>,…` or `.`; obs = `u<dec>` | `f<16 hex bits>` | `r<16 hex bits>x<dec>`, `;`-separated, `.` = none
//!   `G<hexk>~<hexv>`         sample-group element

use crate::{Rng, f64_bits, hex, unhex};
use metrique_writer_core::config::{AllowSplitEntries, EntryDimensions, MetriqueValidationError};
use metrique_writer_core::unit::{NegativeScale, PositiveScale};
use metrique_writer_core::value::MetricFlags;
use metrique_writer_core::{Entry, EntryConfig, EntryWriter, Observation, Unit, ValidationError, Value, ValueWriter};
use metrique_writer_format_emf::{HighStorageResolutionCtor, NoMetricCtor};
use metrique_writer_core::value::FlagConstructor;
use std::borrow::Cow;
use std::time::{Duration, SystemTime};

#[derive(Clone, Copy, Debug, PartialEq, Eq)]
pub enum GFlags {
    None,
    HighRes,
    NoMetric,
}

#[derive(Clone, Debug, PartialEq)]
pub enum GVal {
    Str(String),
    Metric { obs: Vec<Observation>, unit: Unit, dims: Vec<(String, String)>, flags: GFlags },
    Error(String),
    Nothing,
}

#[derive(Debug)]
pub struct OtherConfig;
impl EntryConfig for OtherConfig {}

pub enum GItem {
    Timestamp(i64),
    AllowSplit(AllowSplitEntries),
    OtherCfg(OtherConfig),
    EntryDims(Vec<Vec<String>>, EntryDimensions),
    Unroutable(String, MetriqueValidationError<'static>),
    Value(String, GVal),
}

impl std::fmt::Debug for GenEntry {
    fn fmt(&self, f: &mut std::fmt::Formatter<'_>) -> std::fmt::Result {
        write!(f, "GenEntry({})", self.encode())
    }
}

pub struct GenEntry {
    pub items: Vec<GItem>,
    pub sample_group: Vec<(String, String)>,
}

impl Clone for GItem {
    fn clone(&self) -> Self {
        match self {
            GItem::Timestamp(t) => GItem::Timestamp(*t),
            GItem::AllowSplit(_) => GItem::allow_split(),
            GItem::OtherCfg(_) => GItem::OtherCfg(OtherConfig),
            GItem::EntryDims(d, _) => GItem::entry_dims(d.clone()),
            GItem::Unroutable(m, _) => GItem::unroutable(m.clone()),
            GItem::Value(n, v) => GItem::Value(n.clone(), v.clone()),
        }
    }
}

impl Clone for GenEntry {
    fn clone(&self) -> Self {
        GenEntry { items: self.items.clone(), sample_group: self.sample_group.clone() }
    }
}

pub fn unit_static(name: &str) -> &'static str {
    // Custom units need a &'static str; the harness leaks the few distinct names it uses.
    use std::collections::HashMap;
    use std::sync::Mutex;
    static POOL: Mutex<Option<HashMap<String, &'static str>>> = Mutex::new(None);
    let mut g = POOL.lock().unwrap();
    let m = g.get_or_insert_with(HashMap::new);
    if let Some(s) = m.get(name) {
        return s;
    }
    let s: &'static str = Box::leak(name.to_string().into_boxed_str());
    m.insert(name.to_string(), s);
    s
}

impl GItem {
    pub fn allow_split() -> GItem {
        GItem::AllowSplit(AllowSplitEntries::new())
    }
    pub fn entry_dims(sets: Vec<Vec<String>>) -> GItem {
        let owned: Vec<Cow<'static, [Cow<'static, str>]>> = sets
            .iter()
            .map(|s| Cow::Owned(s.iter().map(|d| Cow::Owned(d.clone())).collect::<Vec<_>>()))
            .collect();
        GItem::EntryDims(sets, EntryDimensions::new(Cow::Owned(owned)))
    }
    pub fn unroutable(msg: String) -> GItem {
        let leaked: &'static str = unit_static(&msg);
        GItem::Unroutable(msg, MetriqueValidationError::new(leaked))
    }
}

pub fn micros_to_system_time(us: i64) -> SystemTime {
    if us >= 0 {
        SystemTime::UNIX_EPOCH + Duration::from_micros(us as u64)
    } else {
        SystemTime::UNIX_EPOCH - Duration::from_micros(us.unsigned_abs())
    }
}

struct GValRef<'a>(&'a GVal);

impl Value for GValRef<'_> {
    fn write(&self, writer: impl ValueWriter) {
        match self.0 {
            GVal::Str(s) => writer.string(s),
            GVal::Metric { obs, unit, dims, flags } => {
                let f = match flags {
                    GFlags::None => MetricFlags::empty(),
                    GFlags::HighRes => HighStorageResolutionCtor::construct(),
                    GFlags::NoMetric => NoMetricCtor::construct(),
                };
                // Values in the wild hand over their observations and dimensions through all kinds of
                // iterators; alternate (deterministically) between exact-size iterators and lazily
                // filtered ones whose size_hint lower bound is 0, so that nothing downstream can rely
                // on size hints.
                let lazy = (obs.len() + dims.len()) % 2 == 1;
                if lazy {
                    writer.metric(
                        obs.iter().copied().filter(|_| true),
                        *unit,
                        dims.iter().map(|(k, v)| (k.as_str(), v.as_str())).filter(|_| true),
                        f,
                    )
                } else {
                    writer.metric(
                        obs.iter().copied(),
                        *unit,
                        dims.iter().map(|(k, v)| (k.as_str(), v.as_str())),
                        f,
                    )
                }
            }
            GVal::Error(m) => writer.error(ValidationError::invalid(m.clone())),
            GVal::Nothing => {}
        }
    }
}

impl Value for GVal {
    fn write(&self, writer: impl ValueWriter) {
        GValRef(self).write(writer)
    }
}

impl Entry for GenEntry {
    fn write<'a>(&'a self, writer: &mut impl EntryWriter<'a>) {
        for it in &self.items {
            match it {
                GItem::Timestamp(us) => writer.timestamp(micros_to_system_time(*us)),
                GItem::AllowSplit(c) => writer.config(c),
                GItem::OtherCfg(c) => writer.config(c),
                GItem::EntryDims(_, c) => writer.config(c),
                GItem::Unroutable(_, e) => e.write(writer),
                GItem::Value(name, v) => writer.value(name.as_str(), v),
            }
        }
    }
    fn sample_group(&self) -> impl Iterator<Item = (Cow<'static, str>, Cow<'static, str>)> {
        self.sample_group
            .iter()
            .map(|(k, v)| (Cow::Owned(k.clone()), Cow::Owned(v.clone())))
            .collect::<Vec<_>>()
            .into_iter()
    }
}

// ------------------------------------------------------------------------------------------------
// encoding

pub fn all_units() -> Vec<Unit> {
    let mut v = vec![Unit::None, Unit::Count, Unit::Percent];
    for s in [NegativeScale::Micro, NegativeScale::Milli, NegativeScale::One] {
        v.push(Unit::Second(s));
    }
    for s in [PositiveScale::One, PositiveScale::Kilo, PositiveScale::Mega, PositiveScale::Giga, PositiveScale::Tera] {
        v.push(Unit::Byte(s));
        v.push(Unit::BytePerSecond(s));
        v.push(Unit::Bit(s));
        v.push(Unit::BitPerSecond(s));
    }
    v
}

pub fn enc_unit(u: Unit) -> String {
    if u == Unit::None { "n".into() } else { format!("u{}", hex(u.name().as_bytes())) }
}

pub fn dec_unit(s: &str) -> Option<Unit> {
    if s == "n" {
        return Some(Unit::None);
    }
    let name = String::from_utf8(unhex(s.strip_prefix('u')?)?).ok()?;
    for u in all_units() {
        if u != Unit::None && u.name() == name {
            return Some(u);
        }
    }
    Some(Unit::Custom(unit_static(&name)))
}

pub fn enc_obs(o: &Observation) -> String {
    match o {
        Observation::Unsigned(v) => format!("u{v}"),
        Observation::Floating(v) => format!("f{}", f64_bits(*v)),
        Observation::Repeated { total, occurrences } => format!("r{}x{}", f64_bits(*total), occurrences),
        _ => "?".into(),
    }
}

pub fn dec_obs(s: &str) -> Option<Observation> {
    let (k, rest) = s.split_at(1);
    match k {
        "u" => Some(Observation::Unsigned(rest.parse().ok()?)),
        "f" => Some(Observation::Floating(f64::from_bits(u64::from_str_radix(rest, 16).ok()?))),
        "r" => {
            let (b, n) = rest.split_once('x')?;
            Some(Observation::Repeated {
                total: f64::from_bits(u64::from_str_radix(b, 16).ok()?),
                occurrences: n.parse().ok()?,
            })
        }
        _ => None,
    }
}

fn hs(s: &str) -> String {
    hex(s.as_bytes())
}
fn uhs(s: &str) -> Option<String> {
    String::from_utf8(unhex(s)?).ok()
}

pub fn enc_val(v: &GVal) -> String {
    match v {
        GVal::Str(s) => format!("S{}", hs(s)),
        GVal::Nothing => "N".into(),
        GVal::Error(m) => format!("E{}", hs(m)),
        GVal::Metric { obs, unit, dims, flags } => {
            let f = match flags {
                GFlags::None => "-",
                GFlags::HighRes => "h",
                GFlags::NoMetric => "x",
            };
            let d = if dims.is_empty() {
                ".".to_string()
            } else {
                dims.iter().map(|(k, v)| format!("{}~{}", hs(k), hs(v))).collect::<Vec<_>>().join(",")
            };
            let o = if obs.is_empty() {
                ".".to_string()
            } else {
                obs.iter().map(enc_obs).collect::<Vec<_>>().join(";")
            };
            format!("M{}:{}:{}:{}", enc_unit(*unit), f, d, o)
        }
    }
}

pub fn dec_val(s: &str) -> Option<GVal> {
    let (k, rest) = s.split_at(1);
    match k {
        "S" => Some(GVal::Str(uhs(rest)?)),
        "N" => Some(GVal::Nothing),
        "E" => Some(GVal::Error(uhs(rest)?)),
        "M" => {
            let parts: Vec<&str> = rest.split(':').collect();
            if parts.len() != 4 {
                return None;
            }
            let unit = dec_unit(parts[0])?;
            let flags = match parts[1] {
                "-" => GFlags::None,
                "h" => GFlags::HighRes,
                "x" => GFlags::NoMetric,
                _ => return None,
            };
            let dims = if parts[2] == "." {
                vec![]
            } else {
                parts[2]
                    .split(',')
                    .map(|kv| {
                        let (k, v) = kv.split_once('~')?;
                        Some((uhs(k)?, uhs(v)?))
                    })
                    .collect::<Option<Vec<_>>>()?
            };
            let obs = if parts[3] == "." {
                vec![]
            } else {
                parts[3].split(';').map(dec_obs).collect::<Option<Vec<_>>>()?
            };
            Some(GVal::Metric { obs, unit, dims, flags })
        }
        _ => None,
    }
}

impl GenEntry {
    pub fn encode(&self) -> String {
        let mut parts: Vec<String> = vec![];
        for it in &self.items {
            parts.push(match it {
                GItem::Timestamp(t) => format!("T{t}"),
                GItem::AllowSplit(_) => "CS".into(),
                GItem::OtherCfg(_) => "CO".into(),
                GItem::EntryDims(sets, _) => format!(
                    "CD{}",
                    sets.iter()
                        .map(|s| if s.is_empty() {
                            ".".to_string()
                        } else {
                            s.iter().map(|d| hs(d)).collect::<Vec<_>>().join(",")
                        })
                        .collect::<Vec<_>>()
                        .join(";")
                ),
                GItem::Unroutable(m, _) => format!("U{}", hs(m)),
                GItem::Value(n, v) => format!("V{}={}", hs(n), enc_val(v)),
            });
        }
        for (k, v) in &self.sample_group {
            parts.push(format!("G{}~{}", hs(k), hs(v)));
        }
        if parts.is_empty() { "_".into() } else { parts.join(" ") }
    }

    pub fn decode(line: &str) -> Option<GenEntry> {
        let mut e = GenEntry { items: vec![], sample_group: vec![] };
        for p in line.split(' ').filter(|p| !p.is_empty() && *p != "_") {
            let (k, rest) = p.split_at(1);
            match k {
                "T" => e.items.push(GItem::Timestamp(rest.parse().ok()?)),
                "C" => match &rest[..1] {
                    "S" => e.items.push(GItem::allow_split()),
                    "O" => e.items.push(GItem::OtherCfg(OtherConfig)),
                    "D" => {
                        let body = &rest[1..];
                        let sets = if body.is_empty() {
                            vec![]
                        } else {
                            body.split(';')
                                .map(|s| {
                                    if s == "." {
                                        Some(vec![])
                                    } else {
                                        s.split(',').map(uhs).collect::<Option<Vec<_>>>()
                                    }
                                })
                                .collect::<Option<Vec<_>>>()?
                        };
                        e.items.push(GItem::entry_dims(sets));
                    }
                    _ => return None,
                },
                "U" => e.items.push(GItem::unroutable(uhs(rest)?)),
                "V" => {
                    let (n, v) = rest.split_once('=')?;
                    e.items.push(GItem::Value(uhs(n)?, dec_val(v)?));
                }
                "G" => {
                    let (k, v) = rest.split_once('~')?;
                    e.sample_group.push((uhs(k)?, uhs(v)?));
                }
                _ => return None,
            }
        }
        Some(e)
    }
}

// ------------------------------------------------------------------------------------------------
// generator

pub const NASTY_STRINGS: &[&str] = &[
    "", "a", "Foo", "Bar", "Operation", "_aws", "x y", "\"", "\\", "\\\"", "a\"b\\c", "\n", "\r\n", "\t",
    "\u{0}", "\u{1}", "\u{1f}", "\u{7f}", "\u{2028}", "\u{2029}", "é", "日本語", "😀", "\u{10ffff}",
    "}{", "[],", "null", "1e400", "\\u0000", "</script>", "Values", "Counts", "Timestamp", "Dimensions",
];

pub const NAME_POOL: &[&str] = &[
    "A", "B", "C", "Latency", "Count", "Operation", "Foo", "Bar", "AZ", "Region", "n\"q", "b\\s", "é", "\u{1}x",
];

pub const NASTY_F64: &[u64] = &[
    0x0000000000000000, // 0
    0x8000000000000000, // -0
    0x3ff0000000000000, // 1
    0xbff0000000000000, // -1
    0x7ff0000000000000, // inf
    0xfff0000000000000, // -inf
    0x7ff8000000000000, // NaN
    0xfff8000000000001, // -NaN payload
    0x7fefffffffffffff, // MAX
    0xffefffffffffffff, // -MAX
    0x0000000000000001, // min subnormal
    0x0010000000000000, // min normal
    0x3fb999999999999a, // 0.1
    0x4340000000000000, // 2^53
    0x43f0000000000000, // 2^64
    0x4024000000000000, // 10
    0x3ff8000000000000, // 1.5
    0x44b52d02c7e14af6, // 1e23
    0x3eb0c6f7a0b5ed8d, // 1e-6
];

pub fn gen_f64(rng: &mut Rng) -> f64 {
    match rng.below(10) {
        0..=3 => f64::from_bits(*rng.pick(NASTY_F64)),
        4..=6 => (rng.below(2000) as f64 - 500.0) / 8.0,
        7 => rng.below(1_000_000) as f64 * 1e-3,
        _ => f64::from_bits(rng.next_u64()),
    }
}

pub fn gen_u64(rng: &mut Rng) -> u64 {
    match rng.below(8) {
        0 => 0,
        1 => u64::MAX,
        2 => 1 << 53,
        3 => (1 << 53) + 1,
        4 => rng.next_u64(),
        _ => rng.below(1000),
    }
}

pub fn gen_obs(rng: &mut Rng) -> Observation {
    match rng.below(3) {
        0 => Observation::Unsigned(gen_u64(rng)),
        1 => Observation::Floating(gen_f64(rng)),
        _ => Observation::Repeated {
            total: gen_f64(rng),
            occurrences: match rng.below(6) {
                0 => 0,
                1 => u64::MAX,
                2 => rng.next_u64(),
                _ => rng.range(1, 50),
            },
        },
    }
}

pub fn gen_string(rng: &mut Rng) -> String {
    match rng.below(10) {
        0..=4 => rng.pick(NASTY_STRINGS).to_string(),
        5..=6 => {
            let n = rng.range(1, 4);
            (0..n).map(|_| rng.pick(NASTY_STRINGS).to_string()).collect::<Vec<_>>().join("")
        }
        7 => {
            let n = rng.range(0, 12);
            (0..n).map(|_| char::from_u32(rng.below(0x80) as u32).unwrap_or('?')).collect()
        }
        8 => {
            let n = rng.range(0, 6);
            (0..n)
                .map(|_| loop {
                    if let Some(c) = char::from_u32(rng.below(0x11_0000) as u32) {
                        break c;
                    }
                })
                .collect()
        }
        _ => "x".repeat(rng.range(100, 5000) as usize),
    }
}

pub fn gen_unit(rng: &mut Rng) -> Unit {
    match rng.below(10) {
        0..=3 => Unit::None,
        4..=7 => *rng.pick(&all_units()),
        8 => Unit::Custom(unit_static(*rng.pick::<&str>(&["Widgets", "None", "a\"b", "", "Ünit"]))),
        _ => Unit::Count,
    }
}

/// unique-by-construction field name number `i` (mostly from the nasty pool, made unique by a suffix)
pub fn gen_name(rng: &mut Rng, i: usize) -> String {
    let base = rng.pick(NAME_POOL);
    format!("{base}{i}")
}

// ------------------------------------------------------------------------------------------------
// Formatter configuration shared by the EMF engines.
//
// Encoding (fields separated by `/`):
//   `<how>/<ns>,<ns>…/<set>;<set>…/<loggroup|~>/<ignored 0|1>/<directives 0|1>/<mult>`
//   how  = `A` Emf::all_validations | `N` Emf::no_validations | `B` builder().build() |
//          `S` builder().skip_all_validations(true) | `F` builder().skip_all_validations(false)
//   ns   = hex; set = `<hex>,<hex>…` or `.`;  mult = `-` (plain format) or `m<dec>` (SampledEmf with
//          that multiplicity; the harness finds a (rate, draw) pair that produces it)

#[derive(Clone, Debug, PartialEq)]
pub struct EmfCfg {
    pub how: char,
    pub namespaces: Vec<String>,
    pub default_dims: Vec<Vec<String>>,
    pub log_group: Option<String>,
    pub allow_ignored: bool,
    /// adds one fixed extra directive (namespace "Extra", one metric) when true
    pub extra_directive: bool,
    pub multiplicity: Option<u64>,
}

impl EmfCfg {
    pub fn encode(&self) -> String {
        let sets = self
            .default_dims
            .iter()
            .map(|s| if s.is_empty() { ".".to_string() } else { s.iter().map(|d| hs(d)).collect::<Vec<_>>().join(",") })
            .collect::<Vec<_>>()
            .join(";");
        format!(
            "{}/{}/{}/{}/{}/{}/{}",
            self.how,
            self.namespaces.iter().map(|n| hs(n)).collect::<Vec<_>>().join(","),
            sets,
            self.log_group.as_ref().map(|g| hs(g)).unwrap_or_else(|| "~".into()),
            self.allow_ignored as u8,
            self.extra_directive as u8,
            self.multiplicity.map(|m| format!("m{m}")).unwrap_or_else(|| "-".into())
        )
    }
    pub fn decode(s: &str) -> Option<EmfCfg> {
        let p: Vec<&str> = s.split('/').collect();
        if p.len() != 7 {
            return None;
        }
        Some(EmfCfg {
            how: p[0].chars().next()?,
            namespaces: p[1].split(',').map(uhs).collect::<Option<Vec<_>>>()?,
            default_dims: p[2]
                .split(';')
                .map(|s| if s == "." { Some(vec![]) } else { s.split(',').map(uhs).collect::<Option<Vec<_>>>() })
                .collect::<Option<Vec<_>>>()?,
            log_group: if p[3] == "~" { None } else { Some(uhs(p[3])?) },
            allow_ignored: p[4] == "1",
            extra_directive: p[5] == "1",
            multiplicity: if p[6] == "-" { None } else { Some(p[6].strip_prefix('m')?.parse().ok()?) },
        })
    }
    /// whether this way of constructing the formatter validates in the *current build profile*
    /// (documented: the builder validates only when debug assertions are on)
    pub fn validates(&self) -> bool {
        match self.how {
            'A' => true,
            'N' | 'S' => false,
            _ => cfg!(debug_assertions),
        }
    }
    pub fn build(&self) -> metrique_writer_format_emf::Emf {
        use metrique_writer_format_emf::{Emf, MetricDefinition, MetricDirective};
        let ns0 = self.namespaces[0].clone();
        if self.namespaces.len() == 1 && self.log_group.is_none() && !self.allow_ignored && !self.extra_directive {
            match self.how {
                'A' => return Emf::all_validations(ns0, self.default_dims.clone()),
                'N' => return Emf::no_validations(ns0, self.default_dims.clone()),
                _ => {}
            }
        }
        let mut b = Emf::builder(ns0, self.default_dims.clone());
        for n in &self.namespaces[1..] {
            b = b.add_namespace(n.clone());
        }
        if let Some(g) = &self.log_group {
            b = b.log_group_name(g.clone());
        }
        b = b.allow_ignored_dimensions(self.allow_ignored);
        if self.extra_directive {
            b = b.directive(MetricDirective {
                dimensions: vec![vec!["ExtraDim"]],
                metrics: vec![MetricDefinition { name: "ExtraMetric", unit: Unit::Count, storage_resolution: None }],
                namespace: "Extra",
            });
        }
        match self.how {
            'N' | 'S' => b = b.skip_all_validations(true),
            'F' => b = b.skip_all_validations(false),
            _ => {}
        }
        // 'A' with a non-trivial builder configuration cannot be expressed through the
        // all_validations constructor; engines generate 'A' only with the trivial configuration
        b.build()
    }
}

/// A scripted `RngCore`: returns the given 64-bit words in order, then zeros.
pub struct ScriptedRng {
    pub words: Vec<u64>,
    pub pos: usize,
}

impl rand::RngCore for ScriptedRng {
    fn next_u32(&mut self) -> u32 {
        (self.next_u64() >> 32) as u32
    }
    fn next_u64(&mut self) -> u64 {
        let w = self.words.get(self.pos).copied().unwrap_or(0);
        self.pos += 1;
        w
    }
    fn fill_bytes(&mut self, dst: &mut [u8]) {
        for chunk in dst.chunks_mut(8) {
            let w = self.next_u64().to_le_bytes();
            chunk.copy_from_slice(&w[..chunk.len()]);
        }
    }
}

/// A real formatter built from an `EmfCfg`: plain `Emf`, or `SampledEmf` over a scripted RNG.
/// It persists across calls (needed for history-independence checks).
pub enum BuiltFmt {
    Plain(metrique_writer_format_emf::Emf),
    Sampled(metrique_writer_format_emf::SampledEmf<ScriptedRng>, f32),
}

impl EmfCfg {
    /// `None` when the multiplicity cannot be produced exactly (supported: powers of two up to
    /// 2^52 through rate 2^-k, where alpha = 1 exactly so every draw gives n = 2^k (beyond 2^53 the f64 sum n+1 rounds); and u64::MAX through a
    /// rate below 2^-63).
    pub fn build_fmt(&self) -> Option<BuiltFmt> {
        match self.multiplicity {
            None => Some(BuiltFmt::Plain(self.build())),
            Some(m) => {
                let rate: f32 = if m == u64::MAX {
                    f32::from_bits(0x1f00_0000) // 2^-65
                } else if m.is_power_of_two() && m <= (1u64 << 52) {
                    (1.0f64 / m as f64) as f32
                } else {
                    return None;
                };
                Some(BuiltFmt::Sampled(
                    self.build().with_sampling_and_rng(ScriptedRng { words: vec![], pos: 0 }),
                    rate,
                ))
            }
        }
    }
}

impl BuiltFmt {
    pub fn format(
        &mut self,
        entry: &impl Entry,
        out: &mut impl std::io::Write,
    ) -> Result<(), metrique_writer_core::IoStreamError> {
        use metrique_writer_core::format::Format;
        use metrique_writer_core::sample::SampledFormat;
        match self {
            BuiltFmt::Plain(f) => f.format(entry, out),
            BuiltFmt::Sampled(f, rate) => f.format_with_sample_rate(entry, out, *rate),
        }
    }
}
