//! `GenEntry`: a data description of an entry (the list of writer calls it makes), interpreted as a
//! real `impl Entry`; its generator; and its line-protocol encoding shared by every engine that
//! formats entries (emf, wrappers, vectored, sinks).
//!
//! Line encoding (items separated by single spaces, strings are hex of UTF-8, `-` = empty):
//!   `T<micros since epoch, may be negative>`             timestamp
//!   `CS`  allow split entries     `CO`  a config the formatter does not know
//!   `CD<set>;<set>…`  entry dimensions, set = `<hex>,<hex>…` or `.` for the empty set; `CD` = no sets
//!   `U<hexmsg>`  the in-band error report entry (`MetriqueValidationError`: AllowUnroutable + one string)
//!   `V<hexname>=S<hex>`      string value
//!   `V<hexname>=N`           value that writes nothing
//!   `V<hexname>=E<hexmsg>`   value that reports a validation error
//!   `V<hexname>=M<unit>:<flags>:<dims>:<obs>`  unit = `n` | `u<hex of unit name>`; flags = `-`|`h`|`x`;
//!        dims = `<hexk>~<hexv>,…` or `.`; obs = `u<dec>` | `f<16 hex bits>` | `r<16 hex bits>x<dec>`, `;`-separated, `.` = none
//!   `G<hexk>~<hexv>`         sample-group element

use crate::{Rng, f64_bits, hex, unhex};
use metrique_writer_core::config::{AllowSplitEntries, EntryDimensions, MetriqueValidationError};
use metrique_writer_core::unit::{NegativeScale, PositiveScale};
use metrique_writer_core::value::MetricFlags;
use metrique_writer_core::{Entry, EntryConfig, EntryWriter, Observation, Unit, ValidationError, Value, ValueWriter};
use metrique_writer_format_emf::{HighStorageResolutionCtor, NoMetricCtor};
use metrique_writer_core::value::FlagConstructor;
use std::borrow::Cow;
use std::time::{Duration, SystemTime};

#[derive(Clone, Copy, Debug, PartialEq, Eq)]
pub enum GFlags {
    None,
    HighRes,
    NoMetric,
}

#[derive(Clone, Debug, PartialEq)]
pub enum GVal {
    Str(String),
    Metric { obs: Vec<Observation>, unit: Unit, dims: Vec<(String, String)>, flags: GFlags },
    Error(String),
    Nothing,
}

#[derive(Debug)]
pub struct OtherConfig;
impl EntryConfig for OtherConfig {}

pub enum GItem {
    Timestamp(i64),
    AllowSplit(AllowSplitEntries),
    OtherCfg(OtherConfig),
    EntryDims(Vec<Vec<String>>, EntryDimensions),
    Unroutable(String, MetriqueValidationError<'static>),
    Value(String, GVal),
}

impl std::fmt::Debug for GenEntry {
    fn fmt(&self, f: &mut std::fmt::Formatter<'_>) -> std::fmt::Result {
        write!(f, "GenEntry({})", self.encode())
    }
}

pub struct GenEntry {
    pub items: Vec<GItem>,
    pub sample_group: Vec<(String, String)>,
}

impl Clone for GItem {
    fn clone(&self) -> Self {
        match self {
            GItem::Timestamp(t) => GItem::Timestamp(*t),
            GItem::AllowSplit(_) => GItem::allow_split(),
            GItem::OtherCfg(_) => GItem::OtherCfg(OtherConfig),
            GItem::EntryDims(d, _) => GItem::entry_dims(d.clone()),
            GItem::Unroutable(m, _) => GItem::unroutable(m.clone()),
            GItem::Value(n, v) => GItem::Value(n.clone(), v.clone()),
        }
    }
}

impl Clone for GenEntry {
    fn clone(&self) -> Self {
        GenEntry { items: self.items.clone(), sample_group: self.sample_group.clone() }
    }
}

pub fn unit_static(name: &str) -> &'static str {
    // Custom units need a &'static str; the harness leaks the few distinct names it uses.
    use std::collections::HashMap;
    use std::sync::Mutex;
    static POOL: Mutex<Option<HashMap<String, &'static str>>> = Mutex::new(None);
    let mut g = POOL.lock().unwrap();
    let m = g.get_or_insert_with(HashMap::new);
    if let Some(s) = m.get(name) {
        return s;
    }
    let s: &'static str = Box::leak(name.to_string().into_boxed_str());
    m.insert(name.to_string(), s);
    s
}

impl GItem {
    pub fn allow_split() -> GItem {
        GItem::AllowSplit(AllowSplitEntries::new())
    }
    pub fn entry_dims(sets: Vec<Vec<String>>) -> GItem {
        let owned: Vec<Cow<'static, [Cow<'static, str>]>> = sets
            .iter()
            .map(|s| Cow::Owned(s.iter().map(|d| Cow::Owned(d.clone())).collect::<Vec<_>>()))
            .collect();
        GItem::EntryDims(sets, EntryDimensions::new(Cow::Owned(owned)))
    }
    pub fn unroutable(msg: String) -> GItem {
        let leaked: &'static str = unit_static(&msg);
        GItem::Unroutable(msg, MetriqueValidationError::new(leaked))
    }
}

pub fn micros_to_system_time(us: i64) -> SystemTime {
    if us >= 0 {
        SystemTime::UNIX_EPOCH + Duration::from_micros(us as u64)
    } else {
        SystemTime::UNIX_EPOCH - Duration::from_micros(us.unsigned_abs())
    }
}

struct GValRef<'a>(&'a GVal);

impl Value for GValRef<'_> {
    fn write(&self, writer: impl ValueWriter) {
        match self.0 {
            GVal::Str(s) => writer.string(s),
            GVal::Metric { obs, unit, dims, flags } => {
                let f = match flags {
                    GFlags::None => MetricFlags::empty(),
                    GFlags::HighRes => HighStorageResolutionCtor::construct(),
                    GFlags::NoMetric => NoMetricCtor::construct(),
                };
                writer.metric(
                    obs.iter().copied(),
                    *unit,
                    dims.iter().map(|(k, v)| (k.as_str(), v.as_str())),
                    f,
                )
            }
            GVal::Error(m) => writer.error(ValidationError::invalid(m.clone())),
            GVal::Nothing => {}
        }
    }
}

impl Value for GVal {
    fn write(&self, writer: impl ValueWriter) {
        GValRef(self).write(writer)
    }
}

impl Entry for GenEntry {
    fn write<'a>(&'a self, writer: &mut impl EntryWriter<'a>) {
        for it in &self.items {
            match it {
                GItem::Timestamp(us) => writer.timestamp(micros_to_system_time(*us)),
                GItem::AllowSplit(c) => writer.config(c),
                GItem::OtherCfg(c) => writer.config(c),
                GItem::EntryDims(_, c) => writer.config(c),
                GItem::Unroutable(_, e) => e.write(writer),
                GItem::Value(name, v) => writer.value(name.as_str(), v),
            }
        }
    }
    fn sample_group(&self) -> impl Iterator<Item = (Cow<'static, str>, Cow<'static, str>)> {
        self.sample_group
            .iter()
            .map(|(k, v)| (Cow::Owned(k.clone()), Cow::Owned(v.clone())))
            .collect::<Vec<_>>()
            .into_iter()
    }
}

// ------------------------------------------------------------------------------------------------
// encoding

pub fn all_units() -> Vec<Unit> {
    let mut v = vec![Unit::None, Unit::Count, Unit::Percent];
    for s in [NegativeScale::Micro, NegativeScale::Milli, NegativeScale::One] {
        v.push(Unit::Second(s));
    }
    for s in [PositiveScale::One, PositiveScale::Kilo, PositiveScale::Mega, PositiveScale::Giga, PositiveScale::Tera] {
        v.push(Unit::Byte(s));
        v.push(Unit::BytePerSecond(s));
        v.push(Unit::Bit(s));
        v.push(Unit::BitPerSecond(s));
    }
    v
}

pub fn enc_unit(u: Unit) -> String {
    if u == Unit::None { "n".into() } else { format!("u{}", hex(u.name().as_bytes())) }
}

pub fn dec_unit(s: &str) -> Option<Unit> {
    if s == "n" {
        return Some(Unit::None);
    }
    let name = String::from_utf8(unhex(s.strip_prefix('u')?)?).ok()?;
    for u in all_units() {
        if u != Unit::None && u.name() == name {
            return Some(u);
        }
    }
    Some(Unit::Custom(unit_static(&name)))
}

pub fn enc_obs(o: &Observation) -> String {
    match o {
        Observation::Unsigned(v) => format!("u{v}"),
        Observation::Floating(v) => format!("f{}", f64_bits(*v)),
        Observation::Repeated { total, occurrences } => format!("r{}x{}", f64_bits(*total), occurrences),
        _ => "?".into(),
    }
}

pub fn dec_obs(s: &str) -> Option<Observation> {
    let (k, rest) = s.split_at(1);
    match k {
        "u" => Some(Observation::Unsigned(rest.parse().ok()?)),
        "f" => Some(Observation::Floating(f64::from_bits(u64::from_str_radix(rest, 16).ok()?))),
        "r" => {
            let (b, n) = rest.split_once('x')?;
            Some(Observation::Repeated {
                total: f64::from_bits(u64::from_str_radix(b, 16).ok()?),
                occurrences: n.parse().ok()?,
            })
        }
        _ => None,
    }
}

fn hs(s: &str) -> String {
    hex(s.as_bytes())
}
fn uhs(s: &str) -> Option<String> {
    String::from_utf8(unhex(s)?).ok()
}

pub fn enc_val(v: &GVal) -> String {
    match v {
        GVal::Str(s) => format!("S{}", hs(s)),
        GVal::Nothing => "N".into(),
        GVal::Error(m) => format!("E{}", hs(m)),
        GVal::Metric { obs, unit, dims, flags } => {
            let f = match flags {
                GFlags::None => "-",
                GFlags::HighRes => "h",
                GFlags::NoMetric => "x",
            };
            let d = if dims.is_empty() {
                ".".to_string()
            } else {
                dims.iter().map(|(k, v)| format!("{}~{}", hs(k), hs(v))).collect::<Vec<_>>().join(",")
            };
            let o = if obs.is_empty() {
                ".".to_string()
            } else {
                obs.iter().map(enc_obs).collect::<Vec<_>>().join(";")
            };
            format!("M{}:{}:{}:{}", enc_unit(*unit), f, d, o)
        }
    }
}

pub fn dec_val(s: &str) -> Option<GVal> {
    let (k, rest) = s.split_at(1);
    match k {
        "S" => Some(GVal::Str(uhs(rest)?)),
        "N" => Some(GVal::Nothing),
        "E" => Some(GVal::Error(uhs(rest)?)),
        "M" => {
            let parts: Vec<&str> = rest.split(':').collect();
            if parts.len() != 4 {
                return None;
            }
            let unit = dec_unit(parts[0])?;
            let flags = match parts[1] {
                "-" => GFlags::None,
                "h" => GFlags::HighRes,
                "x" => GFlags::NoMetric,
                _ => return None,
            };
            let dims = if parts[2] == "." {
                vec![]
            } else {
                parts[2]
                    .split(',')
                    .map(|kv| {
                        let (k, v) = kv.split_once('~')?;
                        Some((uhs(k)?, uhs(v)?))
                    })
                    .collect::<Option<Vec<_>>>()?
            };
            let obs = if parts[3] == "." {
                vec![]
            } else {
                parts[3].split(';').map(dec_obs).collect::<Option<Vec<_>>>()?
            };
            Some(GVal::Metric { obs, unit, dims, flags })
        }
        _ => None,
    }
}

impl GenEntry {
    pub fn encode(&self) -> String {
        let mut parts: Vec<String> = vec![];
        for it in &self.items {
            parts.push(match it {
                GItem::Timestamp(t) => format!("T{t}"),
                GItem::AllowSplit(_) => "CS".into(),
                GItem::OtherCfg(_) => "CO".into(),
                GItem::EntryDims(sets, _) => format!(
                    "CD{}",
                    sets.iter()
                        .map(|s| if s.is_empty() {
                            ".".to_string()
                        } else {
                            s.iter().map(|d| hs(d)).collect::<Vec<_>>().join(",")
                        })
                        .collect::<Vec<_>>()
                        .join(";")
                ),
                GItem::Unroutable(m, _) => format!("U{}", hs(m)),
                GItem::Value(n, v) => format!("V{}={}", hs(n), enc_val(v)),
            });
        }
        for (k, v) in &self.sample_group {
            parts.push(format!("G{}~{}", hs(k), hs(v)));
        }
        if parts.is_empty() { "_".into() } else { parts.join(" ") }
    }

    pub fn decode(line: &str) -> Option<GenEntry> {
        let mut e = GenEntry { items: vec![], sample_group: vec![] };
        for p in line.split(' ').filter(|p| !p.is_empty() && *p != "_") {
            let (k, rest) = p.split_at(1);
            match k {
                "T" => e.items.push(GItem::Timestamp(rest.parse().ok()?)),
                "C" => match &rest[..1] {
                    "S" => e.items.push(GItem::allow_split()),
                    "O" => e.items.push(GItem::OtherCfg(OtherConfig)),
                    "D" => {
                        let body = &rest[1..];
                        let sets = if body.is_empty() {
                            vec![]
                        } else {
                            body.split(';')
                                .map(|s| {
                                    if s == "." {
                                        Some(vec![])
                                    } else {
                                        s.split(',').map(uhs).collect::<Option<Vec<_>>>()
                                    }
                                })
                                .collect::<Option<Vec<_>>>()?
                        };
                        e.items.push(GItem::entry_dims(sets));
                    }
                    _ => return None,
                },
                "U" => e.items.push(GItem::unroutable(uhs(rest)?)),
                "V" => {
                    let (n, v) = rest.split_once('=')?;
                    e.items.push(GItem::Value(uhs(n)?, dec_val(v)?));
                }
                "G" => {
                    let (k, v) = rest.split_once('~')?;
                    e.sample_group.push((uhs(k)?, uhs(v)?));
                }
                _ => return None,
            }
        }
        Some(e)
    }
}

// ------------------------------------------------------------------------------------------------
// generator

pub const NASTY_STRINGS: &[&str] = &[
    "", "a", "Foo", "Bar", "Operation", "_aws", "x y", "\"", "\\", "\\\"", "a\"b\\c", "\n", "\r\n", "\t",
    "\u{0}", "\u{1}", "\u{1f}", "\u{7f}", "\u{2028}", "\u{2029}", "é", "日本語", "😀", "\u{10ffff}",
    "}{", "[],", "null", "1e400", "\\u0000", "</script>", "Values", "Counts", "Timestamp", "Dimensions",
];

pub const NAME_POOL: &[&str] = &[
    "A", "B", "C", "Latency", "Count", "Operation", "Foo", "Bar", "AZ", "Region", "n\"q", "b\\s", "é", "\u{1}x",
];

pub const NASTY_F64: &[u64] = &[
    0x0000000000000000, // 0
    0x8000000000000000, // -0
    0x3ff0000000000000, // 1
    0xbff0000000000000, // -1
    0x7ff0000000000000, // inf
    0xfff0000000000000, // -inf
    0x7ff8000000000000, // NaN
    0xfff8000000000001, // -NaN payload
    0x7fefffffffffffff, // MAX
    0xffefffffffffffff, // -MAX
    0x0000000000000001, // min subnormal
    0x0010000000000000, // min normal
    0x3fb999999999999a, // 0.1
    0x4340000000000000, // 2^53
    0x43f0000000000000, // 2^64
    0x4024000000000000, // 10
    0x3ff8000000000000, // 1.5
    0x44b52d02c7e14af6, // 1e23
    0x3eb0c6f7a0b5ed8d, // 1e-6
];

pub fn gen_f64(rng: &mut Rng) -> f64 {
    match rng.below(10) {
        0..=3 => f64::from_bits(*rng.pick(NASTY_F64)),
        4..=6 => (rng.below(2000) as f64 - 500.0) / 8.0,
        7 => rng.below(1_000_000) as f64 * 1e-3,
        _ => f64::from_bits(rng.next_u64()),
    }
}

pub fn gen_u64(rng: &mut Rng) -> u64 {
    match rng.below(8) {
        0 => 0,
        1 => u64::MAX,
        2 => 1 << 53,
        3 => (1 << 53) + 1,
        4 => rng.next_u64(),
        _ => rng.below(1000),
    }
}

pub fn gen_obs(rng: &mut Rng) -> Observation {
    match rng.below(3) {
        0 => Observation::Unsigned(gen_u64(rng)),
        1 => Observation::Floating(gen_f64(rng)),
        _ => Observation::Repeated {
            total: gen_f64(rng),
            occurrences: match rng.below(6) {
                0 => 0,
                1 => u64::MAX,
                2 => rng.next_u64(),
                _ => rng.range(1, 50),
            },
        },
    }
}

pub fn gen_string(rng: &mut Rng) -> String {
    match rng.below(10) {
        0..=4 => rng.pick(NASTY_STRINGS).to_string(),
        5..=6 => {
            let n = rng.range(1, 4);
            (0..n).map(|_| rng.pick(NASTY_STRINGS).to_string()).collect::<Vec<_>>().join("")
        }
        7 => {
            let n = rng.range(0, 12);
            (0..n).map(|_| char::from_u32(rng.below(0x80) as u32).unwrap_or('?')).collect()
        }
        8 => {
            let n = rng.range(0, 6);
            (0..n)
                .map(|_| loop {
                    if let Some(c) = char::from_u32(rng.below(0x11_0000) as u32) {
                        break c;
                    }
                })
                .collect()
        }
        _ => "x".repeat(rng.range(100, 5000) as usize),
    }
}

pub fn gen_unit(rng: &mut Rng) -> Unit {
    match rng.below(10) {
        0..=3 => Unit::None,
        4..=7 => *rng.pick(&all_units()),
        8 => Unit::Custom(unit_static(*rng.pick::<&str>(&["Widgets", "None", "a\"b", "", "Ünit"]))),
        _ => Unit::Count,
    }
}

/// unique-by-construction field name number `i` (mostly from the nasty pool, made unique by a suffix)
pub fn gen_name(rng: &mut Rng, i: usize) -> String {
    let base = rng.pick(NAME_POOL);
    format!("{base}{i}")
}
