//! Test doubles for the background-queue engines: an entry carrying an id and a scripted stream
//! result, a gate-able recording `EntryIoStream`, a counting `metrics::Recorder`, and a wrapper that
//! builds a REAL typed or boxed `BackgroundQueue` over them.

use metrique_writer::sink::{BackgroundQueue, BackgroundQueueBuilder, BackgroundQueueJoinHandle};
use metrique_writer_core::sink::FlushWait;
use metrique_writer_core::{
    AnyEntrySink, BoxEntrySink, Entry, EntryIoStream, EntrySink, EntryWriter, IoStreamError, MetricFlags, Observation,
    Unit, ValidationError, Value, ValueWriter,
};
use std::borrow::Cow;
use std::future::Future;
use std::pin::Pin;
use std::sync::atomic::{AtomicBool, AtomicU64, Ordering};
use std::sync::{Arc, Condvar, Mutex};
use std::task::{Context, Poll, Waker};
use std::time::{Duration, Instant, SystemTime};

/// scripted result of `stream.next` for one entry; an I/O error carries its `io::ErrorKind`
#[derive(Clone, Copy, Debug, PartialEq, Eq)]
pub enum Res {
    Ok = 0,
    Validation = 1,
    /// `ErrorKind::Other`
    Io = 2,
    IoBrokenPipe = 3,
    IoInterrupted = 4,
    IoWouldBlock = 5,
    IoTimedOut = 6,
    IoWriteZero = 7,
    IoUnexpectedEof = 8,
}

pub const IO_KINDS: [Res; 7] =
    [Res::Io, Res::IoBrokenPipe, Res::IoInterrupted, Res::IoWouldBlock, Res::IoTimedOut, Res::IoWriteZero, Res::IoUnexpectedEof];

impl Res {
    pub fn letter(self) -> &'static str {
        match self {
            Res::Ok => "o",
            Res::Validation => "v",
            Res::Io => "i",
            Res::IoBrokenPipe => "ib",
            Res::IoInterrupted => "ii",
            Res::IoWouldBlock => "iw",
            Res::IoTimedOut => "it",
            Res::IoWriteZero => "iz",
            Res::IoUnexpectedEof => "ie",
        }
    }
    pub fn parse(s: &str) -> Option<Res> {
        [Res::Ok, Res::Validation].into_iter().chain(IO_KINDS).find(|r| r.letter() == s)
    }
    pub fn from_code(c: u64) -> Res {
        [Res::Ok, Res::Validation].into_iter().chain(IO_KINDS).find(|r| *r as u64 == c).unwrap_or(Res::Io)
    }
    pub fn is_io(self) -> bool {
        !matches!(self, Res::Ok | Res::Validation)
    }
    pub fn io_kind(self) -> std::io::ErrorKind {
        use std::io::ErrorKind::*;
        match self {
            Res::IoBrokenPipe => BrokenPipe,
            Res::IoInterrupted => Interrupted,
            Res::IoWouldBlock => WouldBlock,
            Res::IoTimedOut => TimedOut,
            Res::IoWriteZero => WriteZero,
            Res::IoUnexpectedEof => UnexpectedEof,
            _ => Other,
        }
    }
    /// the result the stream returns
    pub fn to_result(self) -> Result<(), IoStreamError> {
        match self {
            Res::Ok => Ok(()),
            Res::Validation => Err(IoStreamError::Validation(ValidationError::invalid("scripted"))),
            io => Err(IoStreamError::Io(std::io::Error::new(io.io_kind(), "scripted"))),
        }
    }
}

pub struct IdEntry {
    pub id: u64,
    pub res: Res,
}

impl Entry for IdEntry {
    fn write<'a>(&'a self, writer: &mut impl EntryWriter<'a>) {
        writer.value("id", &self.id);
        writer.value("res", &(self.res as u64));
    }
}

#[derive(Clone, Copy, Debug, PartialEq, Eq)]
pub enum Call {
    Next(u64, Res),
    Report,
    Flush,
    /// a `next` call whose entry was neither an `IdEntry` nor the error report
    Unknown,
}

#[derive(Default)]
pub struct GateInner {
    pub calls: Vec<Call>,
    /// number of non-report `next` calls that were entered (the last one may be blocked in the gate)
    pub entered: usize,
    pub permits: usize,
    /// cleanup mode: every `next` passes
    pub open: bool,
    pub closed: bool,
    pub calls_after_close: usize,
    /// global sequence number of each call (same index as `calls`), taken when the call is logged
    pub stamps: Vec<u64>,
    /// flush gate: while true every `flush` call blocks (until `fopen` or cleanup)
    pub fclosed: bool,
    /// number of `flush` calls currently blocked in the flush gate (0 or 1)
    pub fblocked: usize,
    /// `flush` calls that may pass although the flush gate is shut (`fstep`)
    pub fpermits: usize,
    /// number of `flush` calls that have passed the shut gate on such a permit
    pub fstepped: usize,
    /// ids that have been offered to `next` (a repeated offer is accepted whatever the script says)
    pub seen_ids: std::collections::HashSet<u64>,
    /// when set, `flush` calls and in-band report entries fail too, cycling through these results
    pub fail_others: bool,
    pub other_calls: usize,
    /// recorder gate: while true the writer's end-of-cycle histogram callbacks block
    pub hclosed: bool,
    /// number of histogram callbacks currently blocked (0 or 1)
    pub hblocked: usize,
}

#[derive(Default)]
pub struct GateShared {
    pub m: Mutex<GateInner>,
    pub cv: Condvar,
    /// global history clock shared with the producer / flusher threads of a trace run
    pub clock: AtomicU64,
    /// trace runs: busy-wait this many microseconds inside every `next` (a slow stream)
    pub slow_us: AtomicU64,
}

impl GateShared {
    pub fn lock(&self) -> std::sync::MutexGuard<'_, GateInner> {
        self.m.lock().unwrap_or_else(|e| e.into_inner())
    }
    pub fn release(&self, k: usize) {
        self.lock().permits += k;
        self.cv.notify_all();
    }
    pub fn tick(&self) -> u64 {
        self.clock.fetch_add(1, Ordering::SeqCst)
    }
    fn log(&self, g: &mut GateInner, c: Call) {
        g.calls.push(c);
        g.stamps.push(self.tick());
    }
    pub fn set_fclosed(&self, closed: bool) {
        let mut g = self.lock();
        g.fclosed = closed;
        g.fpermits = 0;
        drop(g);
        self.cv.notify_all();
    }
    /// let exactly one `flush` call through the shut flush gate
    pub fn fstep(&self) {
        self.lock().fpermits += 1;
        self.cv.notify_all();
    }
    pub fn set_hclosed(&self, closed: bool) {
        self.lock().hclosed = closed;
        self.cv.notify_all();
    }
    /// called by the gating histogram handle (the writer's end-of-cycle recorder callbacks)
    pub fn histogram_callback(&self) {
        let mut g = self.lock();
        if g.hclosed && !g.open {
            g.hblocked += 1;
            while g.hclosed && !g.open {
                g = self.cv.wait(g).unwrap_or_else(|e| e.into_inner());
            }
            g.hblocked -= 1;
        }
    }
    pub fn open(&self) {
        self.lock().open = true;
        self.cv.notify_all();
    }
}

/// An `EntryIoStream` that blocks inside `next` until the harness grants a permit, returns the
/// entry's scripted result, logs every call, and records its own `Drop`.
pub struct GateStream {
    pub shared: Arc<GateShared>,
    /// when false `next` never blocks (trace runs)
    pub gated: bool,
}

#[derive(Default)]
struct Capture {
    id: Option<u64>,
    res: Option<u64>,
    report: bool,
    other: bool,
}

struct CapVal<'c>(&'c mut Option<u64>);

impl ValueWriter for CapVal<'_> {
    fn string(self, _value: &str) {}
    fn metric<'a>(
        self,
        distribution: impl IntoIterator<Item = Observation>,
        _unit: Unit,
        _dimensions: impl IntoIterator<Item = (&'a str, &'a str)>,
        _flags: MetricFlags<'_>,
    ) {
        if let Some(Observation::Unsigned(v)) = distribution.into_iter().next() {
            *self.0 = Some(v);
        }
    }
    fn error(self, _error: ValidationError) {}
}

impl<'a> EntryWriter<'a> for Capture {
    fn timestamp(&mut self, _timestamp: SystemTime) {}
    fn value(&mut self, name: impl Into<Cow<'a, str>>, value: &(impl Value + ?Sized)) {
        let name = name.into();
        match &name[..] {
            "id" => value.write(CapVal(&mut self.id)),
            "res" => value.write(CapVal(&mut self.res)),
            "MetriqueValidationError" => self.report = true,
            _ => self.other = true,
        }
    }
    fn config(&mut self, _config: &'a dyn metrique_writer_core::entry::EntryConfig) {}
}

impl EntryIoStream for GateStream {
    fn next(&mut self, entry: &impl Entry) -> Result<(), IoStreamError> {
        let mut cap = Capture::default();
        entry.write(&mut cap);
        let mut g = self.shared.lock();
        if g.closed {
            g.calls_after_close += 1;
        }
        if cap.report {
            self.shared.log(&mut g, Call::Report);
            if g.fail_others {
                g.other_calls += 1;
                // Ok, Validation and every I/O kind in turn
                let all: Vec<Res> = [Res::Ok, Res::Validation].into_iter().chain(IO_KINDS).collect();
                return all[g.other_calls % all.len()].to_result();
            }
            return Ok(());
        }
        let (Some(id), Some(res)) = (cap.id, cap.res) else {
            self.shared.log(&mut g, Call::Unknown);
            return Ok(());
        };
        let res = Res::from_code(res);
        g.entered += 1;
        if self.gated {
            while g.permits == 0 && !g.open {
                g = self.shared.cv.wait(g).unwrap_or_else(|e| e.into_inner());
            }
            if !g.open {
                g.permits -= 1;
            }
        }
        self.shared.log(&mut g, Call::Next(id, res));
        let repeated = !g.seen_ids.insert(id);
        drop(g);
        let slow = self.shared.slow_us.load(Ordering::Relaxed);
        if slow > 0 {
            let t = Instant::now();
            while t.elapsed() < Duration::from_micros(slow) {
                std::hint::spin_loop();
            }
        }
        // a scripted failure is transient: should the same entry be offered again it is accepted
        // (so that a writer that wrongly retries or re-queues terminates, with the duplicate in the log)
        if repeated { Ok(()) } else { res.to_result() }
    }

    fn flush(&mut self) -> std::io::Result<()> {
        let mut g = self.shared.lock();
        if g.closed {
            g.calls_after_close += 1;
        }
        // the flush gate: the call is logged when it returns
        if g.fclosed && !g.open {
            g.fblocked += 1;
            while g.fclosed && !g.open && g.fpermits == 0 {
                g = self.shared.cv.wait(g).unwrap_or_else(|e| e.into_inner());
            }
            if g.fclosed && !g.open {
                g.fpermits -= 1;
                g.fstepped += 1;
            }
            g.fblocked -= 1;
        }
        self.shared.log(&mut g, Call::Flush);
        if g.fail_others {
            g.other_calls += 1;
            let n = g.other_calls % (IO_KINDS.len() + 1);
            if n > 0 {
                return Err(std::io::Error::new(IO_KINDS[n - 1].io_kind(), "scripted flush failure"));
            }
        }
        Ok(())
    }
}

impl Drop for GateStream {
    fn drop(&mut self) {
        self.shared.lock().closed = true;
    }
}

// ------------------------------------------------------------------------------------------------
// a local metrics recorder that counts `metrique_queue_overflows`

#[derive(Default)]
pub struct Counters {
    pub overflows: Arc<AtomicU64>,
    pub other: Arc<AtomicU64>,
}

#[derive(Clone, Default)]
pub struct CountRecorder(pub Arc<Counters>);

/// a recorder whose histogram handles (`metrique_idle_percent`, `metrique_queue_len`: recorded by the writer
/// at the end of every cycle, after the stream flush) go through the recorder gate of a `GateShared`
#[derive(Clone)]
pub struct GatingRecorder {
    pub counters: Arc<Counters>,
    pub gate: Arc<GateShared>,
}

struct GateHistogram(Arc<GateShared>);

impl metrics_024::HistogramFn for GateHistogram {
    fn record(&self, _value: f64) {
        self.0.histogram_callback();
    }
}

impl metrics_024::Recorder for GatingRecorder {
    fn describe_counter(&self, _: metrics_024::KeyName, _: Option<metrics_024::Unit>, _: metrics_024::SharedString) {}
    fn describe_gauge(&self, _: metrics_024::KeyName, _: Option<metrics_024::Unit>, _: metrics_024::SharedString) {}
    fn describe_histogram(&self, _: metrics_024::KeyName, _: Option<metrics_024::Unit>, _: metrics_024::SharedString) {}
    fn register_counter(&self, key: &metrics_024::Key, _: &metrics_024::Metadata<'_>) -> metrics_024::Counter {
        if key.name() == "metrique_queue_overflows" {
            metrics_024::Counter::from_arc(self.counters.overflows.clone())
        } else {
            metrics_024::Counter::from_arc(self.counters.other.clone())
        }
    }
    fn register_gauge(&self, _: &metrics_024::Key, _: &metrics_024::Metadata<'_>) -> metrics_024::Gauge {
        metrics_024::Gauge::noop()
    }
    fn register_histogram(&self, _: &metrics_024::Key, _: &metrics_024::Metadata<'_>) -> metrics_024::Histogram {
        metrics_024::Histogram::from_arc(Arc::new(GateHistogram(self.gate.clone())))
    }
}

impl metrics_024::Recorder for CountRecorder {
    fn describe_counter(&self, _: metrics_024::KeyName, _: Option<metrics_024::Unit>, _: metrics_024::SharedString) {}
    fn describe_gauge(&self, _: metrics_024::KeyName, _: Option<metrics_024::Unit>, _: metrics_024::SharedString) {}
    fn describe_histogram(&self, _: metrics_024::KeyName, _: Option<metrics_024::Unit>, _: metrics_024::SharedString) {}
    fn register_counter(&self, key: &metrics_024::Key, _: &metrics_024::Metadata<'_>) -> metrics_024::Counter {
        if key.name() == "metrique_queue_overflows" {
            metrics_024::Counter::from_arc(self.0.overflows.clone())
        } else {
            metrics_024::Counter::from_arc(self.0.other.clone())
        }
    }
    fn register_gauge(&self, _: &metrics_024::Key, _: &metrics_024::Metadata<'_>) -> metrics_024::Gauge {
        metrics_024::Gauge::noop()
    }
    fn register_histogram(&self, _: &metrics_024::Key, _: &metrics_024::Metadata<'_>) -> metrics_024::Histogram {
        metrics_024::Histogram::noop()
    }
}

// ------------------------------------------------------------------------------------------------
// the real queue under test

#[derive(Clone, Copy, Debug, PartialEq, Eq)]
pub enum Kind {
    Typed,
    Boxed,
}

impl Kind {
    pub fn name(self) -> &'static str {
        match self {
            Kind::Typed => "typed",
            Kind::Boxed => "boxed",
        }
    }
}

#[derive(Clone)]
pub enum Handle {
    Typed(BackgroundQueue<IdEntry>),
    Boxed(BoxEntrySink),
}

impl Handle {
    pub fn append(&self, e: IdEntry) {
        match self {
            Handle::Typed(q) => q.append(e),
            Handle::Boxed(q) => q.append_any(e),
        }
    }
    pub fn flush(&self) -> FlushWait {
        match self {
            Handle::Typed(q) => EntrySink::<IdEntry>::flush_async(q),
            Handle::Boxed(q) => AnyEntrySink::flush_async(q),
        }
    }
}

pub struct Built {
    pub handle: Handle,
    pub join: BackgroundQueueJoinHandle,
    pub gate: Arc<GateShared>,
    pub counters: Arc<Counters>,
}

pub fn build(kind: Kind, cap: usize, interval: Duration, gated: bool) -> Built {
    build_with(kind, cap, interval, gated, None)
}

pub fn build_with(kind: Kind, cap: usize, interval: Duration, gated: bool, shutdown_timeout: Option<Duration>) -> Built {
    let gate = Arc::new(GateShared::default());
    let counters: Arc<Counters> = Arc::default();
    let rec = GatingRecorder { counters: counters.clone(), gate: gate.clone() };
    let b = BackgroundQueueBuilder::new()
        .capacity(cap)
        .flush_interval(interval)
        .thread_name("verif-queue")
        .metrics_recorder_local::<dyn metrics_024::Recorder, _>(rec);
    let b = match shutdown_timeout {
        Some(t) => b.shutdown_timeout(t),
        None => b,
    };
    let stream = GateStream { shared: gate.clone(), gated };
    let (handle, join) = match kind {
        Kind::Typed => {
            let (q, j) = b.build::<IdEntry>(stream);
            (Handle::Typed(q), j)
        }
        Kind::Boxed => {
            let (q, j) = b.build_boxed(stream);
            (Handle::Boxed(q), j)
        }
    };
    Built { handle, join, gate, counters }
}

/// poll a flush future once without blocking
pub fn poll_once(f: &mut Pin<Box<FlushWait>>) -> bool {
    let mut cx = Context::from_waker(Waker::noop());
    matches!(f.as_mut().poll(&mut cx), Poll::Ready(()))
}

/// A thread-local tracing subscriber that flips a flag at the first event. Installed only around
/// `drop(join_handle)` on the helper thread: the first event `BackgroundQueueJoinHandle::drop` emits
/// ("awaiting background metrics queue shutdown") comes right after `shutdown_signal.store(true)`
/// and `unpark()`, so the harness knows when the shutdown has *begun* without sleeping. The writer
/// thread is not affected (scoped default of another thread).
struct FirstEvent(Arc<AtomicBool>);

impl tracing::Subscriber for FirstEvent {
    fn enabled(&self, _: &tracing::Metadata<'_>) -> bool {
        true
    }
    fn new_span(&self, _: &tracing::span::Attributes<'_>) -> tracing::span::Id {
        tracing::span::Id::from_u64(1)
    }
    fn record(&self, _: &tracing::span::Id, _: &tracing::span::Record<'_>) {}
    fn record_follows_from(&self, _: &tracing::span::Id, _: &tracing::span::Id) {}
    fn event(&self, _: &tracing::Event<'_>) {
        self.0.store(true, Ordering::SeqCst);
    }
    fn enter(&self, _: &tracing::span::Id) {}
    fn exit(&self, _: &tracing::span::Id) {}
}

/// Drops a join handle on a helper thread; `begun` flips once the shutdown flag has been stored and
/// the writer unparked, `returned` when `drop` has returned.
pub struct JoinDropper {
    pub begun: Arc<AtomicBool>,
    /// the plain `drop(join_handle)` itself panicked (e.g. the writer thread had panicked)
    pub panicked: Arc<AtomicBool>,
    pub returned: Arc<AtomicBool>,
    pub thread: Option<std::thread::JoinHandle<()>>,
}

/// how the join handle is dropped
#[derive(Clone, Copy, Debug, PartialEq, Eq)]
pub enum DropHow {
    /// plain `drop(handle)`
    Plain,
    /// dropped by an unwinding panic that is caught (`catch_unwind`) on the dropping thread
    Unwind,
    /// owned by a spawned thread that panics; that thread is then joined
    PanickingThread,
}

/// drop `v` while the current thread is unwinding from a panic (caught here); the panic hook is not run
pub fn drop_while_unwinding<T>(v: T) {
    let _ = std::panic::catch_unwind(std::panic::AssertUnwindSafe(move || {
        let _owned = v;
        std::panic::resume_unwind(Box::new("verif: unwinding drop"));
    }));
}

impl JoinDropper {
    /// starts the drop and waits (up to `wait`) until it has begun
    pub fn start(join: BackgroundQueueJoinHandle, wait: Duration) -> JoinDropper {
        Self::start_how(join, wait, DropHow::Plain)
    }

    pub fn start_how(join: BackgroundQueueJoinHandle, wait: Duration, how: DropHow) -> JoinDropper {
        let returned = Arc::new(AtomicBool::new(false));
        let begun = Arc::new(AtomicBool::new(false));
        let panicked = Arc::new(AtomicBool::new(false));
        let p2 = panicked.clone();
        let (r2, b2) = (returned.clone(), begun.clone());
        let thread = std::thread::Builder::new()
            .name("verif-joindrop".into())
            .spawn(move || {
                let b3 = b2.clone();
                match how {
                    DropHow::Plain => tracing::subscriber::with_default(FirstEvent(b2), move || {
                        if std::panic::catch_unwind(std::panic::AssertUnwindSafe(move || drop(join))).is_err() {
                            p2.store(true, Ordering::SeqCst);
                        }
                    }),
                    DropHow::Unwind => tracing::subscriber::with_default(FirstEvent(b2), move || drop_while_unwinding(join)),
                    DropHow::PanickingThread => {
                        let inner = std::thread::Builder::new()
                            .name("verif-joindrop-panics".into())
                            .spawn(move || {
                                tracing::subscriber::with_default(FirstEvent(b2), move || {
                                    let _owned = join;
                                    std::panic::resume_unwind(Box::new("verif: thread owning the join handle panics"));
                                })
                            })
                            .unwrap();
                        let _ = inner.join();
                    }
                }
                b3.store(true, Ordering::SeqCst);
                r2.store(true, Ordering::SeqCst);
            })
            .unwrap();
        let t0 = Instant::now();
        while !begun.load(Ordering::SeqCst) && t0.elapsed() < wait {
            std::thread::yield_now();
        }
        JoinDropper { begun, panicked, returned, thread: Some(thread) }
    }
    pub fn has_returned(&self) -> bool {
        self.returned.load(Ordering::SeqCst)
    }
    /// wait for the helper thread; false if it did not finish in time (the thread is then leaked)
    pub fn finish(&mut self, timeout: Duration) -> bool {
        let t0 = Instant::now();
        while !self.has_returned() {
            if t0.elapsed() > timeout {
                return false;
            }
            std::thread::sleep(Duration::from_micros(200));
        }
        if let Some(t) = self.thread.take() {
            let _ = t.join();
        }
        true
    }
}

// ------------------------------------------------------------------------------------------------
// every public way of attaching a metrics recorder to the queue (C09: where does the overflow count go?)

#[derive(Clone, Copy, Debug, PartialEq, Eq)]
pub enum Route {
    /// `metrics_recorder_local::<dyn metrics::Recorder, _>(rec)`
    Local,
    /// `metrics_recorder_global::<dyn metrics::Recorder>()`: whatever recorder is current at each call
    Global,
    /// `metrics_recorder_local(rec)` and then the deprecated `metric_recorder(None)`: no recorder at all
    LocalThenNone,
    /// the deprecated `metric_recorder(None)` and then `metrics_recorder_global`
    NoneThenGlobal,
}

impl Route {
    pub fn name(self) -> &'static str {
        match self {
            Route::Local => "local",
            Route::Global => "global",
            Route::LocalThenNone => "local-then-none",
            Route::NoneThenGlobal => "none-then-global",
        }
    }
    pub fn uses_current_recorder(self) -> bool {
        matches!(self, Route::Global | Route::NoneThenGlobal)
    }
}

/// builds a gated queue (quiet flush interval) with the given recorder route; `local` is the recorder
/// handed to `metrics_recorder_local` where the route uses one
#[allow(deprecated)]
pub fn build_route(kind: Kind, cap: usize, route: Route, local: CountRecorder) -> (Handle, BackgroundQueueJoinHandle, Arc<GateShared>) {
    let gate = Arc::new(GateShared::default());
    let b = BackgroundQueueBuilder::new().capacity(cap).flush_interval(Duration::from_secs(50)).thread_name("verif-queue-rec");
    let b = match route {
        Route::Local => b.metrics_recorder_local::<dyn metrics_024::Recorder, _>(local),
        Route::Global => b.metrics_recorder_global::<dyn metrics_024::Recorder>(),
        Route::LocalThenNone => b.metrics_recorder_local::<dyn metrics_024::Recorder, _>(local).metric_recorder(None),
        Route::NoneThenGlobal => b.metric_recorder(None).metrics_recorder_global::<dyn metrics_024::Recorder>(),
    };
    let stream = GateStream { shared: gate.clone(), gated: true };
    let (handle, join) = match kind {
        Kind::Typed => {
            let (q, j) = b.build::<IdEntry>(stream);
            (Handle::Typed(q), j)
        }
        Kind::Boxed => {
            let (q, j) = b.build_boxed(stream);
            (Handle::Boxed(q), j)
        }
    };
    (handle, join, gate)
}

// ------------------------------------------------------------------------------------------------
// a process-global tracing subscriber that counts the writer's error events (C01: the in-band report is
// written only while NO subscriber is installed). Can be installed once per process, never removed.

pub struct ErrorEventCounter(pub Arc<AtomicU64>);

impl tracing::Subscriber for ErrorEventCounter {
    fn enabled(&self, _: &tracing::Metadata<'_>) -> bool {
        true
    }
    fn new_span(&self, _: &tracing::span::Attributes<'_>) -> tracing::span::Id {
        tracing::span::Id::from_u64(1)
    }
    fn record(&self, _: &tracing::span::Id, _: &tracing::span::Record<'_>) {}
    fn record_follows_from(&self, _: &tracing::span::Id, _: &tracing::span::Id) {}
    fn event(&self, e: &tracing::Event<'_>) {
        let m = e.metadata();
        if *m.level() == tracing::Level::ERROR && m.file().map(|f| f.ends_with("background.rs")).unwrap_or(false) {
            self.0.fetch_add(1, Ordering::SeqCst);
        }
    }
    fn enter(&self, _: &tracing::span::Id) {}
    fn exit(&self, _: &tracing::span::Id) {}
}

// ------------------------------------------------------------------------------------------------
// queues built with extreme but legal builder values (C05: the shutdown contract holds for all of them)

#[derive(Clone, Copy, Debug, PartialEq, Eq)]
pub enum Timeout {
    OneNano,
    Default30s,
    Max,
    HalfMax,
}

impl Timeout {
    pub fn all() -> [Timeout; 4] {
        [Timeout::OneNano, Timeout::Default30s, Timeout::Max, Timeout::HalfMax]
    }
    pub fn name(self) -> &'static str {
        match self {
            Timeout::OneNano => "1ns",
            Timeout::Default30s => "30s",
            Timeout::Max => "max",
            Timeout::HalfMax => "halfmax",
        }
    }
    pub fn parse(s: &str) -> Option<Timeout> {
        Timeout::all().into_iter().find(|t| t.name() == s)
    }
    pub fn duration(self) -> Duration {
        match self {
            Timeout::OneNano => Duration::from_nanos(1),
            Timeout::Default30s => Duration::from_secs(30),
            Timeout::Max => Duration::MAX,
            Timeout::HalfMax => Duration::MAX / 2,
        }
    }
}

pub struct ExtremeCfg {
    pub kind: Kind,
    pub cap: usize,
    pub interval: Duration,
    pub timeout: Timeout,
    pub recorder: bool,
    pub named: bool,
    pub slow_us: u64,
}

/// a gated queue with the given builder values (the recorder, if any, is a plain counting one)
pub fn build_extreme(c: &ExtremeCfg) -> (Handle, BackgroundQueueJoinHandle, Arc<GateShared>) {
    let gate = Arc::new(GateShared::default());
    gate.slow_us.store(c.slow_us, Ordering::Relaxed);
    let mut b = BackgroundQueueBuilder::new().capacity(c.cap).flush_interval(c.interval).shutdown_timeout(c.timeout.duration());
    if c.named {
        b = b.thread_name("verif-extreme").metric_name("verif-extreme-queue");
    }
    if c.recorder {
        b = b.metrics_recorder_local::<dyn metrics_024::Recorder, _>(CountRecorder::default());
    }
    let stream = GateStream { shared: gate.clone(), gated: true };
    let (handle, join) = match c.kind {
        Kind::Typed => {
            let (q, j) = b.build::<IdEntry>(stream);
            (Handle::Typed(q), j)
        }
        Kind::Boxed => {
            let (q, j) = b.build_boxed(stream);
            (Handle::Boxed(q), j)
        }
    };
    (handle, join, gate)
}

// ------------------------------------------------------------------------------------------------
// a large inline entry type (C09: the configured capacity holds whatever the size of the entry type)

pub struct BigEntry {
    pub id: u64,
    pub res: Res,
    pub pad: [u8; 65536],
}

impl BigEntry {
    pub fn new(id: u64) -> BigEntry {
        BigEntry { id, res: Res::Ok, pad: [0u8; 65536] }
    }
}

impl Entry for BigEntry {
    fn write<'a>(&'a self, writer: &mut impl EntryWriter<'a>) {
        writer.value("id", &self.id);
        writer.value("res", &(self.res as u64));
    }
}

pub struct BuiltBig {
    pub queue: BackgroundQueue<BigEntry>,
    pub join: BackgroundQueueJoinHandle,
    pub gate: Arc<GateShared>,
    pub counters: Arc<Counters>,
}

pub fn build_big(cap: usize) -> BuiltBig {
    let gate = Arc::new(GateShared::default());
    let rec = CountRecorder::default();
    let counters = rec.0.clone();
    let (queue, join) = BackgroundQueueBuilder::new()
        .capacity(cap)
        .flush_interval(Duration::from_secs(50))
        .thread_name("verif-queue-big")
        .metrics_recorder_local::<dyn metrics_024::Recorder, _>(rec)
        .build::<BigEntry>(GateStream { shared: gate.clone(), gated: true });
    BuiltBig { queue, join, gate, counters }
}
