#!/usr/bin/env python3
"""Regenerates /verif/MANIFEST.json from props/*.json (one file per claimed property) and
props/not_applicable.json. Run after adding or changing a property configuration."""
import json, os, glob
ROOT = os.path.dirname(os.path.dirname(os.path.abspath(__file__)))
BASELINE = "cd /repo && cargo nextest run --workspace --no-fail-fast --tool-config-file pb:/w/lib/nextest.toml --profile pb --test-threads 8 --offline"
checks, engines = [], {}
for f in sorted(glob.glob(os.path.join(ROOT, "props", "C*.json"))):
    c = json.load(open(f))
    pid = c["id"]
    checks.append({
        "property_id": pid,
        "quick_cmd": f"./check {pid} --tier quick",
        "thorough_cmd": f"./check {pid} --tier thorough",
        "evidence_file": f"/verif/evidence/{pid}.json",
        "replay_cmd_template": f"./check {pid} --replay {{path}}",
        "engine": c["engine"],
        "level_claimed": {"category": "proof", "text": c["level_text"], "design_ref": c.get("design_ref", "DESIGN.md §5")},
        "level_note": c["level_note"],
        "technique": c["technique"],
    })
    for run in c["runs"]:
        e = engines.setdefault(run["bin"], {"name": run["bin"], "path": f"harness/src/bin/{run['bin']}.rs", "serves_properties": [],
                                            "kind_free_text": "Rust correspondence harness binary calling the real crates in-process + Lean model via lean/Driver"})
        if pid not in e["serves_properties"]: e["serves_properties"].append(pid)
na_path = os.path.join(ROOT, "props", "not_applicable.json")
na = json.load(open(na_path)) if os.path.exists(na_path) else []
claimed = {c["property_id"] for c in checks}
na = [x for x in na if x["property_id"] not in claimed]
hooks_path = os.path.join(ROOT, "props", "hooks.json")
hooks = json.load(open(hooks_path)) if os.path.exists(hooks_path) else {"source_commits": []}
manifest = {
    "version": 1,
    "setup_cmd": "./setup.sh",
    "hooks": {
        "guard": "metrique_verif",
        "enable": "RUSTFLAGS='--cfg metrique_verif' (set by ./check when it builds /verif/harness against /repo's working tree)",
        "baseline_off_cmd": BASELINE,
        "source_commits": hooks.get("source_commits", []),
        "add_only": True,
    },
    "engines": list(engines.values()),
    "checks": checks,
    "not_applicable": na,
    "notes": "Every check is ./check <id>: T-gen + lake build + axiom audit + harness (oracle and model correspondence). See DESIGN.md.",
}
json.dump(manifest, open(os.path.join(ROOT, "MANIFEST.json"), "w"), indent=1)
print(f"{len(checks)} checks, {len(na)} not applicable")
