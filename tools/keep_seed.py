#!/usr/bin/env python3
"""keep_seed.py <Cxx-tag> <seed-id> <caught-by comma list or -> <note…>: copies a confirmed adversary change from
/tmp/mut/out/<Cxx-tag> into /verif/seeded/<seed-id>/ (patch.diff, demo/, meta.json) and records what was run."""
import json, os, shutil, sys
tag, sid, caught = sys.argv[1], sys.argv[2], sys.argv[3]
note = " ".join(sys.argv[4:])
src, dst = f"/tmp/mut/out/{tag}", f"/verif/seeded/{sid}"
os.makedirs(dst, exist_ok=True)
shutil.copy(f"{src}/patch.diff", f"{dst}/patch.diff")
if os.path.exists(f"{dst}/demo"): shutil.rmtree(dst + "/demo")
shutil.copytree(f"{src}/demo", f"{dst}/demo", ignore=shutil.ignore_patterns("target"))
m = json.load(open(f"{src}/meta.json"))
m["confirmed_by_integrator"] = {
    "ran": [f"demo ({m.get('demo_cmd')}) with the patch in a scratch worktree of /repo: fails",
            "same demo without the patch: passes",
            "baseline nextest suite (349 tests) with the patch: passes",
            "tools/seedtest.py <patch> <checks> (scratch worktrees of /repo and /verif)"],
    "caught_by": [] if caught == "-" else caught.split(","),
    "note": note,
}
m["demo_note"] = "demo/Cargo.toml has path dependencies into the adversary's scratch worktree (/tmp/mut/...); repoint them to a checkout with the patch applied to re-run"
json.dump(m, open(f"{dst}/meta.json", "w"), indent=1)
print("kept", dst)
