#!/bin/bash
# usage: confirm.sh <Cxx-tag> ; confirms demo fails with patch, passes without, suite passes with.
# Never uses git stash (shared across worktrees): the worktree is reset and patch.diff re-applied.
n=$1; wt=/tmp/mut/$n; out=/tmp/mut/out/$n
cd $wt || exit 2
git checkout -q -- . && git apply $out/patch.diff || { echo "patch.diff does not apply cleanly to a clean worktree"; exit 3; }
echo "files: $(git diff --stat | tail -1)"
cmd=$(python3 -c "import json;print(json.load(open('$out/meta.json'))['demo_cmd'])")
(cd $out/demo && CARGO_NET_OFFLINE=true timeout 1800 bash -c "$cmd" >$out/demo_with.log 2>&1); with=$?
git apply -R $out/patch.diff
(cd $out/demo && CARGO_NET_OFFLINE=true timeout 1800 bash -c "$cmd" >$out/demo_without.log 2>&1); without=$?
git apply $out/patch.diff
CARGO_NET_OFFLINE=true timeout 3000 cargo nextest run --workspace --no-fail-fast --tool-config-file pb:/w/lib/nextest.toml --profile pb --test-threads 8 --offline > $out/suite.log 2>&1; suite=$?
if [ $suite -ne 0 ] && grep -q "glob failed for file" $out/suite.log; then
  CARGO_NET_OFFLINE=true timeout 3000 cargo nextest run --workspace --no-fail-fast --tool-config-file pb:/w/lib/nextest.toml --profile pb --test-threads 8 --offline > $out/suite.log 2>&1; suite=$?
fi
echo "demo with patch exit=$with (want !=0); without exit=$without (want 0); suite exit=$suite (want 0): $(grep -E 'Summary' $out/suite.log | tail -1)"
