#!/usr/bin/env python3
"""launch_prep.py <tag> <Cxx…> : build prompts with a hint listing previous adversaries' summaries"""
import json, glob, subprocess, sys
tag = sys.argv[1]
for pid in sys.argv[2:]:
    prev = []
    for m in sorted(glob.glob(f'/verif/seeded/{pid}-*/meta.json')):
        prev.append('- ' + json.load(open(m))['summary'][:220].replace('\n', ' '))
    hint = ("Earlier adversaries have ALREADY made the following changes for this property; yours must be different in kind "
            "(a different mechanism, code path, public API entry point, build profile, value range, resource-lifetime or timing window), "
            "not a variation of one of them:\n" + "\n".join(prev) + "\nThink about paths these did not touch: rarely used public constructors/builders and "
            "trait impls (Box/Arc/Option/tuple/reference forwarding impls), Clone/Default of stateful objects, behaviour that differs between debug and release builds, "
            "extreme but legal values, re-use of one object after an error or a panic, and drop order.")
    subprocess.run(['python3', '/tmp/mut/make_prompt.py', pid, tag, hint], check=True)
