#!/bin/bash
# process.sh <Cxx-tag> [extra checks…] : confirm + seedtest, compact output
n=$1; shift; pid=${n%%-*}
echo "=== $n: $(python3 -c "import json;m=json.load(open('/tmp/mut/out/$n/meta.json'));print(m['summary'][:300]); print('   needs:', m['needs'][:300])")"
/tmp/mut/confirm.sh $n 2>&1 | tail -1
python3 /verif/tools/seedtest.py /tmp/mut/out/$n/patch.diff $pid "$@" 2>&1 | grep -E "^== |CAUGHT|replay:" | cut -c1-420
