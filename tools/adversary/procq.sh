#!/bin/bash
# procq.sh <item>... ; item = "Cxx-tag extra..." ; sequential processing with cleanup
cd /verif
for item in "$@"; do
  set -- $item
  /tmp/mut/process.sh "$@"
  rm -rf /tmp/mut/out/$1/demo/target
  git -C /repo worktree remove --force /tmp/mut/$1
done
