#!/usr/bin/env python3
"""usage: make_prompt.py <Cxx> <tag> [hint…] — creates a scratch worktree of /repo and the prompt file"""
import json, sys, subprocess, os
pid, tag = sys.argv[1], sys.argv[2]
hint = " ".join(sys.argv[3:])
props = {json.loads(l)['id']: json.loads(l) for l in open('/verif/properties.jsonl')}
p = props[pid]
wt = f"/tmp/mut/{pid}-{tag}"
out = f"/tmp/mut/out/{pid}-{tag}"
os.makedirs(out, exist_ok=True)
if not os.path.exists(wt):
    subprocess.run(["git", "-C", "/repo", "worktree", "add", "--detach", wt, "HEAD"], check=True, capture_output=True)
txt = f"""You are testing a verification effort by playing the adversary. You are given ONE semantic property of the Rust repository awslabs/metrique and your own scratch git worktree of that repository at {wt} (a worktree of /repo at its current HEAD). Work ONLY inside {wt} and {out}; never touch /repo itself or /verif (do not read /verif at all — what you write must be independent of the verifier's machinery).

THE PROPERTY ({pid}: "{p['title']}"):
{p['statement']}

It is meant to hold: {p['quantifier']['text']}.

Files where the mechanism lives: {', '.join(p['anchors']['files'])}.

YOUR TASK: make a change to the library source code in {wt} that BREAKS this property while the code still compiles and the repository's existing test suite still passes. Make it a REALISTIC regression (the kind of slip a maintainer could make in a refactor or optimisation: an off-by-one, a reordered step, a dropped clear/reset, a wrong comparison, a lost wake-up, a forgotten forward, a special case handled slightly wrong), and make it SUBTLE: it must need something specific to manifest — a particular interleaving, a fault at a particular point, a multi-step sequence of operations, an unusual input, or two cooperating sites that each look fine alone — not something ordinary use would expose at once. {hint}
Do not touch tests, snapshots, Cargo files or anything guarded by `cfg(metrique_verif)`; change only library source (.rs under the crates' src/). Keep the diff small (ideally < 25 lines).

Then write a DEMONSTRATION: a small standalone Rust program or test (put it in {out}/demo/ as its own tiny cargo project with an empty `[workspace]` table, path dependencies on the crates inside {wt}, and a copy of {wt}/Cargo.lock next to its Cargo.toml; build with `cargo run --offline` / `cargo test --offline`; there is no network) that FAILS (non-zero exit or failed assertion) with your change and PASSES without it. Verify both directions yourself. IMPORTANT: do NOT use `git stash` (the stash is shared by all worktrees of this repository and other people work in sibling worktrees): to test without your change run `git diff > {out}/mine.diff && git apply -R {out}/mine.diff`, and `git apply {out}/mine.diff` to put it back.

Also verify that the existing suite still passes WITH your change:
  cd {wt} && cargo nextest run --workspace --no-fail-fast --tool-config-file pb:/w/lib/nextest.toml --profile pb --test-threads 8 --offline
(349 tests; the first build takes a few minutes).

Deliver in {out}/:
  patch.diff   — `git -C {wt} diff` of your change (library source only)
  demo/        — the demonstration project
  meta.json    — {{"property": "{pid}", "summary": "<one line: what the change does>", "needs": "<what specific input/sequence/interleaving it needs in order to manifest>", "files": [...], "demo_cmd": "<command run in demo/>", "demo_fails_with_patch": true, "demo_passes_without_patch": true, "suite_passes_with_patch": true}}
Leave your change applied in {wt} (uncommitted) when you finish. Your final message: the one-line summary, what it needs to manifest, and confirmation of the three checks (demo fails with / passes without / suite passes with). If after honest effort you cannot find a change that keeps the suite green, say so and describe the closest you got.
"""
open(f"/tmp/prompts/mut-{pid}-{tag}.txt", "w").write(txt)
print(f"/tmp/prompts/mut-{pid}-{tag}.txt", wt)
