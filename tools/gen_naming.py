"""T-gen group `naming` (C07): the two constants of metrique-core/src/concat.rs.

* `haveValLimit` — the bound in `const HAVE_VAL: bool = S::HAVE_VAL && T::HAVE_VAL && (S::LEN + T::LEN) <= N;`
  of `impl MaybeConstStr for Concatenated<S, T>`;
* `matchLimit`   — the last literal arm of `const MAYBE_VAL: &str = match S::MAYBE_VAL.len() + T::MAYBE_VAL.len()`;
  the arms must be exactly `k => ConcatenatedLen::<S, T, k>::MAYBE_VAL` for k = 0 ..= matchLimit followed
  by `_ => ""`.
Also checked (shape the model transcribes): `ConcatenatedLen`'s HAVE_VAL/LEN/extend, `const_str_value`.
Fails loudly when an item is missing or has another shape.
"""
import os, re

@group("naming")
def gen_naming():
    path = os.path.join(REPO, "metrique-core", "src", "concat.rs")
    src = open(path).read()
    src = src.split("#[cfg(test)]")[0]
    m = re.search(r"impl<S: MaybeConstStr, T: MaybeConstStr> MaybeConstStr for Concatenated<S, T> \{(.*?)\n\}\n", src, re.S)
    if not m:
        raise Exception("concat.rs: impl MaybeConstStr for Concatenated<S, T> not found")
    body = m.group(1)
    hv = re.search(r"const HAVE_VAL: bool = S::HAVE_VAL && T::HAVE_VAL && \(S::LEN \+ T::LEN\) <= (\d+);", body)
    if not hv:
        raise Exception("concat.rs: HAVE_VAL of Concatenated is not `S::HAVE_VAL && T::HAVE_VAL && (S::LEN + T::LEN) <= N`")
    have = int(hv.group(1))
    if not re.search(r"const LEN: usize = S::LEN \+ T::LEN;", body):
        raise Exception("concat.rs: LEN of Concatenated is not S::LEN + T::LEN")
    if not re.search(r"fn extend\(into: &mut String\) \{\s*S::extend\(into\);\s*T::extend\(into\);\s*\}", body):
        raise Exception("concat.rs: extend of Concatenated is not S::extend; T::extend")
    mm = re.search(r"const MAYBE_VAL: &str = match S::MAYBE_VAL\.len\(\) \+ T::MAYBE_VAL\.len\(\) \{(.*?)\n    \};", body, re.S)
    if not mm:
        raise Exception("concat.rs: MAYBE_VAL match of Concatenated not found")
    arms = [a.strip() for a in mm.group(1).strip().split("\n") if a.strip()]
    if arms[-1] != '_ => "",':
        raise Exception(f"concat.rs: last MAYBE_VAL arm is {arms[-1]!r}, expected `_ => \"\",`")
    for k, a in enumerate(arms[:-1]):
        if a != f"{k} => ConcatenatedLen::<S, T, {k}>::MAYBE_VAL,":
            raise Exception(f"concat.rs: MAYBE_VAL arm {k} is {a!r}")
    match_limit = len(arms) - 2
    # ConcatenatedLen<S, T, N>::MAYBE_VAL concatenates when N is the sum of the lengths
    if not re.search(r"if N != x\.len\(\) \+ y\.len\(\) \{\s*return buf;\s*\}", src):
        raise Exception("concat.rs: concatenate_strings length guard changed")
    if not re.search(r"let mut i = 0;\s*while i < x\.len\(\) \{\s*buf\[i\] = x\[i\];\s*i \+= 1;\s*\}\s*let mut i = 0;\s*while i < y\.len\(\) \{\s*buf\[x\.len\(\) \+ i\] = y\[i\];\s*i \+= 1;\s*\}", src):
        raise Exception("concat.rs: concatenate_strings copy loops changed")
    if not re.search(r"concatenate_strings::<N>\(S::MAYBE_VAL\.as_bytes\(\), T::MAYBE_VAL\.as_bytes\(\)\)", src):
        raise Exception("concat.rs: ConcatenatedLen::MAYBE_VAL no longer concatenates S then T")
    csv = re.search(r"pub fn const_str_value<S: MaybeConstStr>\(\) -> Cow<'static, str> \{\s*if S::HAVE_VAL \{\s*Cow::Borrowed\(S::MAYBE_VAL\)\s*\} else \{\s*let mut buf = String::with_capacity\(S::LEN\);\s*S::extend\(&mut buf\);\s*Cow::Owned\(buf\)\s*\}\s*\}", src)
    if not csv:
        raise Exception("concat.rs: const_str_value changed shape")
    leaf = re.search(r"impl<T: ConstStr> MaybeConstStr for T \{\s*const MAYBE_VAL: &'static str = Self::VAL;\s*const LEN: usize = const \{ Self::VAL\.len\(\) \};\s*const HAVE_VAL: bool = true;\s*fn extend\(into: &mut String\) \{\s*into\.push_str\(Self::VAL\);\s*\}\s*\}", src)
    if not leaf:
        raise Exception("concat.rs: impl MaybeConstStr for T: ConstStr changed shape")
    # ---- forwarding `impl InflectableEntry<NS> for <container of T>` in metrique-core -----------------
    # (type the impl is for, bound of T is `InflectableEntry<NS>` and the body calls T's own methods)
    impls = []
    for rel in ("inflectable_entry_impls.rs", "close_value_impls.rs"):
        fsrc = open(os.path.join(REPO, "metrique-core", "src", rel)).read().split("#[cfg(test)]")[0]
        for m in re.finditer(r"\nimpl<([^{]*?)>\s*(?:crate::)?InflectableEntry<NS>\s+for\s+([^{]+?)\s*\{(.*?)\n\}\n", fsrc, re.S):
            generics, target, body = m.group(1), " ".join(m.group(2).split()), m.group(3)
            ok = re.search(r"\bT:\s*(?:crate::)?InflectableEntry<NS>", generics) is not None
            # the wrapped entry's methods are called at the same NS: `(**self).write(writer)` resolves through
            # the bound above; the explicit form is `<T as InflectableEntry<NS>>::write`
            if "fn write" not in body:
                ok = False
            if re.search(r"as\s+(?:crate::)?InflectableEntry\s*>", body) or re.search(r"InflectableEntry<(?!NS>)", body):
                ok = False
            if not (re.search(r"\(\*\*self\)\.write\(writer\)|entry\.write\(writer\)|<T as InflectableEntry<NS>>::write\(", body)):
                ok = False
            impls.append((target, ok, "fn sample_group" in body))
    if not impls:
        raise Exception("metrique-core: no forwarding InflectableEntry<NS> impls found")
    # no other file of metrique-core may implement InflectableEntry<NS> for a container
    for fn in sorted(os.listdir(os.path.join(REPO, "metrique-core", "src"))):
        if fn.endswith(".rs") and fn not in ("inflectable_entry_impls.rs", "close_value_impls.rs"):
            t = open(os.path.join(REPO, "metrique-core", "src", fn)).read()
            if re.search(r"\nimpl<[^{]*>\s*(?:crate::)?InflectableEntry<NS>\s+for", t):
                raise Exception(f"metrique-core/src/{fn}: an InflectableEntry<NS> impl outside the two known files")
    impl_lines = ",\n".join(f'  ("{t}", {"true" if ok else "false"}, {"true" if sg else "false"})' for t, ok, sg in impls)
    out = f"""/-! GENERATED by tools/gen_naming.py from metrique-core/src/concat.rs — do not edit. -/
namespace Generated.Naming

/-- `(S::LEN + T::LEN) <= {have}` in `impl MaybeConstStr for Concatenated` (HAVE_VAL) -/
def haveValLimit : Nat := {have}

/-- largest literal arm `N => ConcatenatedLen::<S, T, N>::MAYBE_VAL` of the MAYBE_VAL match (arms are 0 ..= N, then `_ => ""`) -/
def matchLimit : Nat := {match_limit}

/-- every `impl<NS, T, …> InflectableEntry<NS> for <container of T>` of metrique-core
(inflectable_entry_impls.rs, close_value_impls.rs): (the type, `T: InflectableEntry<NS>` and the body
calls `T`'s own `write` at that `NS`, the impl overrides `sample_group`) -/
def forwardingImpls : List (String × Bool × Bool) := [
{impl_lines}
]

end Generated.Naming
"""
    write_if_changed(os.path.join(ROOT, "lean", "Generated", "Naming.lean"), out)
