#!/usr/bin/env python3
"""Rewrites the table between <!-- SEEDS-BEGIN --> and <!-- SEEDS-END --> in DESIGN.md from seeded/*/meta.json."""
import json, glob, os, re
ROOT = os.path.dirname(os.path.dirname(os.path.abspath(__file__)))
rows = []
for d in sorted(x for x in glob.glob(os.path.join(ROOT, "seeded", "*")) if os.path.isdir(x)):
    m = json.load(open(os.path.join(d, "meta.json")))
    c = m.get("confirmed_by_integrator", {})
    caught = ", ".join(c.get("caught_by", [])) or "**missed**"
    def cell(s): return str(s).replace("|", "\\|").replace("\n", " ")
    rows.append(f"| `{os.path.basename(d)}` | {m['property']} | {cell(m.get('summary',''))} | {cell(m.get('needs',''))} | {caught} | {cell(c.get('note',''))} |")
table = "| seeded change | property | what it does | what it needs to manifest | caught by | how |\n|---|---|---|---|---|---|\n" + "\n".join(rows)
p = os.path.join(ROOT, "DESIGN.md")
s = open(p).read()
s = re.sub(r"<!-- SEEDS-BEGIN -->.*<!-- SEEDS-END -->", "<!-- SEEDS-BEGIN -->\n" + table + "\n<!-- SEEDS-END -->", s, flags=re.S)
open(p, "w").write(s)
print(len(rows), "seeded changes")
