#!/usr/bin/env python3
"""T-gen: regenerates lean/Generated/*.lean from /repo's current sources.
usage: extract_consts.py <group>... | all      (groups are added as properties need them)"""
import sys, os, re
ROOT = os.path.dirname(os.path.dirname(os.path.abspath(__file__)))
REPO = os.environ.get("VERIF_REPO", "/repo")   # scratch copies only for mutation experiments
GROUPS = {}

def group(name):
    def deco(f):
        GROUPS[name] = f
        return f
    return deco

def write_if_changed(path, text):
    if os.path.exists(path) and open(path).read() == text:
        return
    os.makedirs(os.path.dirname(path), exist_ok=True)
    open(path, "w").write(text)

def main():
    names = sys.argv[1:]
    if names == ["all"] or not names:
        names = list(GROUPS)
    rc = 0
    for n in names:
        if n not in GROUPS:
            print(f"extract_consts: unknown group {n}"); rc = 1; continue
        try:
            GROUPS[n]()
        except Exception as e:  # a missing item is a broken tie, reported by ./check
            print(f"extract_consts: group {n} failed: {e}"); rc = 1
    sys.exit(rc)

# GROUPS-BEGIN (each group lives in tools/gen_<name>.py and registers itself)
import importlib.util, glob
for f in sorted(glob.glob(os.path.join(ROOT, "tools", "gen_*.py"))):
    if os.path.basename(f) in ("gen_manifest.py",): continue
    spec = importlib.util.spec_from_file_location(os.path.basename(f)[:-3], f)
    mod = importlib.util.module_from_spec(spec)
    mod.group, mod.write_if_changed, mod.ROOT, mod.REPO = group, write_if_changed, ROOT, REPO
    spec.loader.exec_module(mod)
# GROUPS-END

if __name__ == "__main__":
    main()
