#!/usr/bin/env python3
"""Run checks against seeded changes applied to /repo ITSELF (the brief's procedure: git -C /repo apply <file>;
run the checks; git -C /repo checkout -- .). Evidence files written during these runs describe a mutated tree,
so they are restored from git afterwards. Results go to seeded/IN_REPO.json.

usage: apply_in_repo.py <seed-id> [<seed-id>…]
"""
import json, os, subprocess, sys

def sh(cmd, cwd="/verif"):
    p = subprocess.run(cmd, cwd=cwd, shell=True, stdout=subprocess.PIPE, stderr=subprocess.STDOUT, text=True)
    return p.returncode, p.stdout

def main():
    out_path = "/verif/seeded/IN_REPO.json"
    res = json.load(open(out_path)) if os.path.exists(out_path) else {}
    rc, st = sh("git -C /repo status --porcelain")
    if st.strip():
        sys.exit("/repo is not clean")
    for sid in sys.argv[1:]:
        meta = json.load(open(f"/verif/seeded/{sid}/meta.json"))
        props = meta["confirmed_by_integrator"].get("caught_by") or [meta["property"]]
        rc, out = sh(f"git -C /repo apply /verif/seeded/{sid}/patch.diff")
        if rc != 0:
            rc, out = sh(f"git -C /repo apply -3 /verif/seeded/{sid}/patch.diff && git -C /repo reset -q")
            if rc != 0:
                print(sid, "does not apply"); continue
        try:
            r = {}
            for pid in props[:1]:
                rc, out = sh(f"./check {pid}")
                lines = [l for l in out.split("\n") if l.startswith(("VIOLATION", "OK "))]
                r[pid] = {"exit": rc, "lines": lines[:3]}
                print(sid, pid, "exit", rc, lines[:1])
            res[sid] = r
        finally:
            sh("git -C /repo checkout -- .")
            sh("git checkout -- evidence")
    rc, st = sh("git -C /repo status --porcelain")
    assert not st.strip(), "/repo not restored"
    json.dump(dict(sorted(res.items())), open(out_path, "w"), indent=1)

if __name__ == "__main__":
    main()
