#!/usr/bin/env python3-vt
import json, jsonschema, glob, sys
jsonschema.validate(json.load(open('/verif/MANIFEST.json')), json.load(open('/root/.vp/MANIFEST.schema.json')))
s = json.load(open('/root/.vp/EVIDENCE.schema.json'))
for f in sorted(glob.glob('/verif/evidence/*.json')):
    jsonschema.validate(json.load(open(f)), s)
print("manifest + evidence valid:", len(glob.glob('/verif/evidence/*.json')), "evidence files")
