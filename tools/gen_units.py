"""T-gen group `units`: re-reads metrique-writer-core/src/unit.rs (and the Duration value of
value/primitive.rs) and rewrites lean/Generated/Units.lean.

Extracted (fails loudly if an item is missing or has an unexpected shape):
  * `NegativeScale::reduction_factor` and `PositiveScale::expansion_factor` match arms
  * the rows of `time_unit_tag!`, `bit_unit_tag!` and the plain `unit_tag!` invocations
  * the `RATIO` formulas of the three `Convert` impls (which side is the numerator)
  * `Unit::name` with the `positive_scale!` macro expanded
  * the unit and factor used by `<Duration as Value>::write`
`group`, `write_if_changed`, `ROOT`, `REPO` are injected by tools/extract_consts.py.
"""
import os, re


def _need(m, what):
    if not m:
        raise RuntimeError(f"units: cannot find {what}")
    return m


def _num(s):
    s = s.strip().replace("_", "")
    if not re.fullmatch(r"\d+", s):
        raise RuntimeError(f"units: not an integer literal: {s!r}")
    return int(s)


def _chars(s):
    return 'chars! "%s"' % s


def _fn_body(src, header_re, what):
    m = _need(re.search(header_re, src), what)
    i = src.index("{", m.end() - 1)
    depth, j = 0, i
    while True:
        if src[j] == "{": depth += 1
        elif src[j] == "}":
            depth -= 1
            if depth == 0: break
        j += 1
    return src[i + 1:j]


def _strip_comments(src):
    return re.sub(r"//[^\n]*", "", src)


# ------------------------------------------------------------------------------------------------
# Fail closed: everything of the modelled sources that is *not* table data must have exactly the
# shape this extractor (and the hand-written model) understands.  The comment-stripped sources, with
# the table data replaced by placeholders, are compared token for token (whitespace-insensitive)
# with tools/gen_units.skeleton.txt.  An unknown `impl Convert`, a new macro, an edited `convert`
# body, a new `MetricValue` impl in primitive.rs, … all change the skeleton and fail the tie
# (`T-gen:units` → VIOLATION … no-failing-input-found unless the engine finds an input).
# After reviewing such a change (and updating Model/Units.lean), refresh the skeleton with
#   VERIF_UNITS_ACCEPT_SKELETON=1 python3 tools/extract_consts.py units

def _non_test(src):
    return _strip_comments(re.split(r"#\[cfg\(test\)\]\s*mod tests", src)[0])


def _block_from(src, start_re, what):
    """text from the match of start_re to the brace that closes the first `{` after it"""
    m = _need(re.search(start_re, src), what)
    i = src.index("{", m.start())
    depth, j = 0, i
    while True:
        if src[j] == "{": depth += 1
        elif src[j] == "}":
            depth -= 1
            if depth == 0: break
        j += 1
    return src[m.start():j + 1]


def _sub_once(src, pattern, repl, what, count=1, flags=re.S):
    out, n = re.subn(pattern, repl, src, flags=flags)
    if n != count:
        raise RuntimeError(f"units: expected {count} occurrence(s) of {what}, found {n}")
    return out


def _skeleton():
    sections = []
    unit = _non_test(open(os.path.join(REPO, "metrique-writer-core/src/unit.rs")).read())
    # table data → placeholders (the data itself goes to Generated/Units.lean and is checked by theorems)
    arms = r"(?:\s*Self::\w+\s*=>\s*[\d_]+\s*,)+\s*"
    unit = _sub_once(unit, r"(pub const fn reduction_factor\(self\) -> u64 \{\s*match self \{)" + arms + r"(\})", r"\1<ARMS>\2", "reduction_factor arms")
    unit = _sub_once(unit, r"(pub const fn expansion_factor\(self\) -> u64 \{\s*match self \{)" + arms + r"(\})", r"\1<ARMS>\2", "expansion_factor arms")
    unit = _sub_once(unit, r"(\ntime_unit_tag!\s*\{)(?:\s*\w+\s*,\s*\w+\s*,\s*\w+\s*;)+\s*(\})", r"\1<ROWS>\2", "time_unit_tag! rows")
    unit = _sub_once(unit, r"(\nbit_unit_tag!\s*\{)(?:\s*\w+\s*,\s*\w+\s*,\s*\w+\s*,\s*[\d_]+\s*,\s*\w+\s*;)+\s*(\})", r"\1<ROWS>\2", "bit_unit_tag! rows")
    unit, n = re.subn(r"\nunit_tag!\(\w+,\s*\w+,\s*Unit::\w+\);", "\nunit_tag!(<ROW>);", unit)
    if n == 0: raise RuntimeError("units: no plain unit_tag! invocation")
    unit = re.sub(r"(\nunit_tag!\(<ROW>\);)+", "\nunit_tag!(<ROW>);*", unit)
    unit = _sub_once(unit, r"const RATIO: f64 = \(\w+::FROM_SECONDS as f64\)\s*/\s*\(\w+::FROM_SECONDS as f64\);", "const RATIO: f64 = <TIME-RATIO>;", "time RATIO")
    unit = _sub_once(unit, r"const RATIO: f64 = \(\w+::FROM_BITS as f64\)\s*/\s*\(\w+::FROM_BITS as f64\);", "const RATIO: f64 = <BIT-RATIO>;", "bit RATIO")
    unit = _sub_once(unit, r"(impl<U: UnitTag> Convert<U> for None \{\s*const RATIO: f64 = )[\d._]+;", r"\1<LIT>;", "None RATIO")
    # Unit::name: the strings are data, the arms are shape
    name = _block_from(unit, r"pub const fn name\(self\) -> &'static str", "Unit::name")
    unit = unit.replace(name, re.sub(r'"[^"]*"', '"<S>"', name))
    sections.append(("metrique-writer-core/src/unit.rs", unit))

    prim = _non_test(open(os.path.join(REPO, "metrique-writer-core/src/value/primitive.rs")).read())
    sections.append(("metrique-writer-core/src/value/primitive.rs", prim))

    vmod = _non_test(open(os.path.join(REPO, "metrique-writer-core/src/value/mod.rs")).read())
    for start, what in [(r"pub trait ValueWriter: Sized", "trait ValueWriter"),
                        (r"pub enum Observation", "enum Observation"),
                        (r"impl Value for Observation", "impl Value for Observation"),
                        (r"impl MetricValue for Observation", "impl MetricValue for Observation"),
                        (r"pub trait MetricValue: Value", "trait MetricValue"),
                        (r"impl<T: Value> Value for Option<T>", "impl Value for Option"),
                        (r"impl<T: MetricValue> MetricValue for Option<T>", "impl MetricValue for Option")]:
        sections.append(("metrique-writer-core/src/value/mod.rs: " + what, _block_from(vmod, start, what)))

    dist = _non_test(open(os.path.join(REPO, "metrique-writer/src/value/distribution.rs")).read())
    sections.append(("metrique-writer/src/value/distribution.rs", dist))

    lib = _strip_comments(open(os.path.join(REPO, "metrique/src/lib.rs")).read())
    sections.append(("metrique/src/lib.rs: mod unit", _block_from(lib, r"pub mod unit \{", "metrique::unit")))
    mac = _strip_comments(open(os.path.join(REPO, "metrique-macro/src/lib.rs")).read())
    sections.append(("metrique-macro/src/lib.rs: entry_field", _block_from(mac, r"fn entry_field\(&self, named: bool\)", "MetricsField::entry_field")))
    sections.append(("metrique-macro/src/lib.rs: unit", _block_from(mac, r"fn unit\(&self\) -> Option<&syn::Path>", "MetricsField::unit")))

    out = []
    for title, text in sections:
        out.append("### " + title)
        # one token run per line keeps diffs readable; whitespace is not significant
        out.append("\n".join(" ".join(l.split()) for l in text.split("\n") if l.strip()))
    return "\n".join(out) + "\n"


def _check_skeleton():
    path = os.path.join(ROOT, "tools", "gen_units.skeleton.txt")
    cur = _skeleton()
    if os.environ.get("VERIF_UNITS_ACCEPT_SKELETON") == "1":
        open(path, "w").write(cur)
        return
    if not os.path.exists(path):
        raise RuntimeError("units: tools/gen_units.skeleton.txt is missing")
    want = open(path).read()
    norm = lambda t: re.sub(r"\s+", "", t)
    if norm(cur) != norm(want):
        import difflib
        d = [l for l in difflib.unified_diff(want.split("\n"), cur.split("\n"), "understood", "current", n=1, lineterm="")]
        raise RuntimeError("units: the source has a shape the extractor/model does not understand (fail closed):\n" + "\n".join(d[:40]))


@group("units")
def gen_units():
    _check_skeleton()
    raw = open(os.path.join(REPO, "metrique-writer-core/src/unit.rs")).read()
    src = _strip_comments(raw.split("#[cfg(test)]\nmod tests")[0])

    # scale factors
    red = _fn_body(src, r"pub const fn reduction_factor\(self\) -> u64 \{", "NegativeScale::reduction_factor")
    reduction = [(v, _num(n)) for v, n in re.findall(r"Self::(\w+)\s*=>\s*([\d_]+)\s*,", red)]
    exp = _fn_body(src, r"pub const fn expansion_factor\(self\) -> u64 \{", "PositiveScale::expansion_factor")
    expansion = [(v, _num(n)) for v, n in re.findall(r"Self::(\w+)\s*=>\s*([\d_]+)\s*,", exp)]
    if len(reduction) != red.count("=>") or len(expansion) != exp.count("=>") or not reduction or not expansion:
        raise RuntimeError("units: unexpected arm in reduction_factor/expansion_factor")

    # tag tables
    tt = _need(re.search(r"\ntime_unit_tag!\s*\{(.*?)\n\}", src, re.S), "time_unit_tag! invocation").group(1)
    time_rows = []
    for row in [r.strip() for r in tt.split(";") if r.strip()]:
        f = [x.strip() for x in row.split(",")]
        if len(f) != 3: raise RuntimeError(f"units: time_unit_tag row {row!r}")
        time_rows.append(tuple(f))
    bt = _need(re.search(r"\nbit_unit_tag!\s*\{(.*?)\n\}", src, re.S), "bit_unit_tag! invocation").group(1)
    bit_rows = []
    for row in [r.strip() for r in bt.split(";") if r.strip()]:
        f = [x.strip() for x in row.split(",")]
        if len(f) != 5: raise RuntimeError(f"units: bit_unit_tag row {row!r}")
        bit_rows.append((f[0], f[1], f[2], _num(f[3]), f[4]))
    plain_rows = re.findall(r"\nunit_tag!\((\w+),\s*(\w+),\s*Unit::(\w+)\);", src)
    if not time_rows or not bit_rows or not plain_rows:
        raise RuntimeError("units: empty tag table")

    # how the macros use their columns
    tm = _need(re.search(r"macro_rules! time_unit_tag \{(.*?)\n\}\n", src, re.S), "macro time_unit_tag").group(1)
    _need(re.search(r"\(\$\(\$struct:ident, \$conversion:ident, \$scale:ident;\)\*\)", tm), "time_unit_tag! column order")
    _need(re.search(r"unit_tag!\(\$struct, \$conversion, Unit::Second\(NegativeScale::\$scale\)\);", tm), "time_unit_tag! unit")
    _need(re.search(r"const FROM_SECONDS: u64 = NegativeScale::\$scale\.reduction_factor\(\);", tm), "FROM_SECONDS")
    m = _need(re.search(r"impl<U: TimeTag> Convert<U> for \$struct \{\s*const RATIO: f64 = \((\w+)::FROM_SECONDS as f64\)\s*/\s*\((\w+)::FROM_SECONDS as f64\);", tm), "time RATIO formula")
    time_target_over_self = (m.group(1), m.group(2)) == ("U", "Self")
    if not time_target_over_self and (m.group(1), m.group(2)) != ("Self", "U"):
        raise RuntimeError("units: unexpected time RATIO formula")
    bm = _need(re.search(r"macro_rules! bit_unit_tag \{(.*?)\n\}\n", src, re.S), "macro bit_unit_tag").group(1)
    _need(re.search(r"\(\$\(\$struct:ident, \$conversion:ident, \$base:ident, \$bits:expr, \$scale:ident;\)\*\)", bm), "bit_unit_tag! column order")
    _need(re.search(r"unit_tag!\(\$struct, \$conversion, Unit::\$base\(PositiveScale::\$scale\)\);", bm), "bit_unit_tag! unit")
    _need(re.search(r"const FROM_BITS: u64 = \$bits\s*\*\s*PositiveScale::\$scale\.expansion_factor\(\);", bm), "FROM_BITS")
    m = _need(re.search(r"impl<U: BitTag> Convert<U> for \$struct \{\s*const RATIO: f64 = \((\w+)::FROM_BITS as f64\)\s*/\s*\((\w+)::FROM_BITS as f64\);", bm), "bit RATIO formula")
    bit_self_over_target = (m.group(1), m.group(2)) == ("Self", "U")
    if not bit_self_over_target and (m.group(1), m.group(2)) != ("U", "Self"):
        raise RuntimeError("units: unexpected bit RATIO formula")
    m = _need(re.search(r"impl<U: UnitTag> Convert<U> for None \{\s*const RATIO: f64 = ([\d._]+);", src), "None RATIO")
    none_ratio_is_one = float(m.group(1).replace("_", "")) == 1.0
    um = _need(re.search(r"macro_rules! unit_tag \{(.*?)\n\}\n", src, re.S), "macro unit_tag").group(1)
    _need(re.search(r"const UNIT: Unit = \$value;", um), "unit_tag! UNIT")
    _need(re.search(r"pub type \$conversion<V> = WithUnit<V, \$struct>;", um), "unit_tag! alias")

    # Unit::name
    nb = _fn_body(src, r"pub const fn name\(self\) -> &'static str \{", "Unit::name")
    pm = _need(re.search(r"macro_rules! positive_scale \{\s*\(\$scale:expr, \$base:literal, \$scaled:literal\) => \{\s*match \$scale \{(.*?)\}", nb, re.S), "positive_scale! macro").group(1)
    ps_arms = []
    for arm in [a.strip() for a in pm.split(",\n") if a.strip()]:
        arm = arm.rstrip(",")
        m1 = re.fullmatch(r"PositiveScale::(\w+) => \$base", arm)
        m2 = re.fullmatch(r'PositiveScale::(\w+) => concat!\("(\w*)", \$scaled\)', arm)
        if m1: ps_arms.append((m1.group(1), None))
        elif m2: ps_arms.append((m2.group(1), m2.group(2)))
        else: raise RuntimeError(f"units: positive_scale! arm {arm!r}")
    main = nb[nb.index("match self"):]
    names = []   # (variant, scale variant or "", name)
    for v, n in re.findall(r'Self::(\w+) => "([^"]*)",', main):
        names.append((v, "", n))
    sm = _need(re.search(r"Self::Second\(scale\) => match scale \{(.*?)\}", main, re.S), "Unit::name Second arm").group(1)
    sec = re.findall(r'NegativeScale::(\w+) => "([^"]*)",', sm)
    if len(sec) != sm.count("=>"): raise RuntimeError("units: unexpected Second arm in Unit::name")
    for sv, n in sec: names.append(("Second", sv, n))
    scaled = re.findall(r'Self::(\w+)\(scale\) => positive_scale!\(scale, "([^"]*)", "([^"]*)"\),', main)
    if not scaled: raise RuntimeError("units: no positive_scale! arms in Unit::name")
    for v, base, sc in scaled:
        for sv, pre in ps_arms:
            names.append((v, sv, base if pre is None else pre + sc))
    _need(re.search(r"Self::Custom\(unit\) => unit,", main), "Unit::name Custom arm")
    expected_arms = 3 + 1 + len(scaled) + 1
    if len(re.findall(r"\n\s*Self::\w+", main)) != expected_arms:
        raise RuntimeError("units: unexpected arm in Unit::name")

    # Duration
    prim = _strip_comments(open(os.path.join(REPO, "metrique-writer-core/src/value/primitive.rs")).read())
    m = _need(re.search(r"fn duration_as_millis_with_nano_precision\(duration: Duration\) -> f64 \{\s*duration\.as_secs_f64\(\) \* \((\w+)\.reduction_factor\(\) as f64\)\s*\}", prim), "duration_as_millis_with_nano_precision")
    dur_factor_scale = m.group(1)
    _need(re.search(r"unit::\{self, NegativeScale::" + dur_factor_scale + r"\}", prim), "import of the Duration scale")
    db = _fn_body(prim, r"impl Value for Duration \{", "impl Value for Duration")
    _need(re.search(r"Observation::Floating\(\s*duration_as_millis_with_nano_precision\(\*self\),?\s*\)", db), "Duration observation")
    m = _need(re.search(r"Unit::Second\((\w+)\)", db), "Duration unit")
    dur_unit_scale = m.group(1)
    m = _need(re.search(r"impl MetricValue for Duration \{\s*type Unit = unit::(\w+);", prim), "Duration MetricValue::Unit")
    dur_tag = m.group(1)

    def lst(rows, fmt):
        return "[\n" + ",\n".join("    " + fmt(r) for r in rows) + "\n  ]"

    out = f"""import Model.Chars
/-!
GENERATED by tools/gen_units.py from metrique-writer-core/src/unit.rs and value/primitive.rs — do not edit.
The theorems of Props/C19.lean compare these tables with the model and the hand-written SI
specification, so a changed table re-opens the proof.
-/
namespace Generated.Units

/-- arms of `NegativeScale::reduction_factor`: (variant, factor) -/
def reductionFactor : List (List Char × Nat) := {lst(reduction, lambda r: f'({_chars(r[0])}, {r[1]})')}

/-- arms of `PositiveScale::expansion_factor`: (variant, factor) -/
def expansionFactor : List (List Char × Nat) := {lst(expansion, lambda r: f'({_chars(r[0])}, {r[1]})')}

/-- plain `unit_tag!` invocations: (struct, alias, `Unit` variant) -/
def plainTags : List (List Char × List Char × List Char) := {lst(plain_rows, lambda r: f'({_chars(r[0])}, {_chars(r[1])}, {_chars(r[2])})')}

/-- rows of `time_unit_tag!`: (struct, alias, `NegativeScale` variant); the unit is `Unit::Second(scale)`,
`FROM_SECONDS = scale.reduction_factor()` -/
def timeTags : List (List Char × List Char × List Char) := {lst(time_rows, lambda r: f'({_chars(r[0])}, {_chars(r[1])}, {_chars(r[2])})')}

/-- rows of `bit_unit_tag!`: (struct, alias, `Unit` variant, bits, `PositiveScale` variant); the unit is
`Unit::<variant>(scale)`, `FROM_BITS = bits * scale.expansion_factor()` -/
def bitTags : List (List Char × List Char × List Char × Nat × List Char) := {lst(bit_rows, lambda r: f'({_chars(r[0])}, {_chars(r[1])}, {_chars(r[2])}, {r[3]}, {_chars(r[4])})')}

/-- time: `RATIO = U::FROM_SECONDS / Self::FROM_SECONDS` -/
def timeRatioIsTargetOverSelf : Bool := {str(time_target_over_self).lower()}
/-- bits: `RATIO = Self::FROM_BITS / U::FROM_BITS` -/
def bitRatioIsSelfOverTarget : Bool := {str(bit_self_over_target).lower()}
/-- `impl<U: UnitTag> Convert<U> for None {{ RATIO = 1.0 }}` -/
def noneRatioIsOne : Bool := {str(none_ratio_is_one).lower()}

/-- `Unit::name` with `positive_scale!` expanded: (`Unit` variant, scale variant or empty, name) -/
def unitNames : List (List Char × List Char × List Char) := {lst(names, lambda r: f'({_chars(r[0])}, {_chars(r[1])}, {_chars(r[2])})')}

/-- `<Duration as Value>::write`: `as_secs_f64() * (<scale>.reduction_factor() as f64)` -/
def durationFactorScale : List Char := {_chars(dur_factor_scale)}
/-- … written with `Unit::Second(<scale>)` -/
def durationUnitScale : List Char := {_chars(dur_unit_scale)}
/-- `<Duration as MetricValue>::Unit` -/
def durationTag : List Char := {_chars(dur_tag)}

end Generated.Units
"""
    write_if_changed(os.path.join(ROOT, "lean", "Generated", "Units.lean"), out)
