#!/usr/bin/env python3
"""Regression sweep over every kept seeded change: apply it in a scratch worktree (tools/seedtest.py),
run the quick check of each property its meta.json names under caught_by (or of its own property
when it was recorded as missed), and record the outcome in seeded/SWEEP.json.

usage: sweep_seeds.py [--jobs N] [--only <substring>]
"""
import json, glob, os, subprocess, sys, time
from concurrent.futures import ThreadPoolExecutor
import queue

def main():
    jobs = 4
    only = None
    a = sys.argv[1:]
    if "--jobs" in a: jobs = int(a[a.index("--jobs") + 1])
    if "--only" in a: only = a[a.index("--only") + 1]
    seeds = []
    for m in sorted(glob.glob("/verif/seeded/*/meta.json")):
        sid = os.path.basename(os.path.dirname(m))
        if only and only not in sid: continue
        meta = json.load(open(m))
        want = meta.get("confirmed_by_integrator", {}).get("caught_by") or []
        props = want if want else [meta["property"]]
        seeds.append((sid, props, bool(want)))
    # seeds of the properties whose engines changed most recently first
    first = ("C01", "C04", "C05", "C09", "C16", "C17", "C20", "C06", "C13", "C11")
    seeds.sort(key=lambda x: (0 if x[0][:3] in first else 1, x[0]))
    import threading
    wlock = threading.Lock()
    def heads():
        return {"repo_head": subprocess.run(["git", "-C", "/repo", "rev-parse", "--short", "HEAD"], stdout=subprocess.PIPE, text=True).stdout.strip(),
                "verif_head": subprocess.run(["git", "-C", "/verif", "rev-parse", "--short", "HEAD"], stdout=subprocess.PIPE, text=True).stdout.strip()}
    def save():
        with wlock:
            json.dump({**heads(), "complete": len(results) == len(seeds), "results": dict(sorted(results.items()))},
                      open("/verif/seeded/SWEEP.partial.json", "w"), indent=1)
    slots = queue.Queue()
    for i in range(jobs): slots.put(str(i + 1))
    results = {}
    def run(item):
        sid, props, expected = item
        slot = slots.get()
        try:
            t0 = time.time()
            p = subprocess.run(["python3", "/verif/tools/seedtest.py", f"/verif/seeded/{sid}/patch.diff", *props],
                               env={**os.environ, "SEED_SLOT": slot}, stdout=subprocess.PIPE, stderr=subprocess.STDOUT, text=True)
            caught = []
            for l in p.stdout.split("\n"):
                if l.startswith("CAUGHT by:") and "nothing" not in l:
                    caught = json.loads(l.split("CAUGHT by:")[1].strip().replace("'", '"'))
            applies = "patch does not apply" not in p.stdout
            if applies and "CAUGHT by:" not in p.stdout:
                results[sid] = {"ran": props, "error": p.stdout[-400:]}
                print(f"{sid}: ERROR {p.stdout[-200:]!r}", flush=True)
                return
            results[sid] = {"ran": props, "caught_by": caught, "applies": applies, "seconds": round(time.time() - t0)}
            print(f"{sid}: ran {props} -> caught by {caught}" + ("" if applies else "  (PATCH DOES NOT APPLY)"), flush=True)
        finally:
            slots.put(slot)
            save()
    with ThreadPoolExecutor(jobs) as ex:
        list(ex.map(run, seeds))
    out = {"repo_head": subprocess.run(["git", "-C", "/repo", "rev-parse", "--short", "HEAD"], stdout=subprocess.PIPE, text=True).stdout.strip(),
           "verif_head": subprocess.run(["git", "-C", "/verif", "rev-parse", "--short", "HEAD"], stdout=subprocess.PIPE, text=True).stdout.strip(),
           "results": dict(sorted(results.items()))}
    prev = {}
    if only and os.path.exists("/verif/seeded/SWEEP.json"):
        prev = json.load(open("/verif/seeded/SWEEP.json")); prev["results"].update(out["results"]); out = {**prev, "verif_head": out["verif_head"], "repo_head": out["repo_head"]}
    json.dump(out, open("/verif/seeded/SWEEP.json", "w"), indent=1)
    missed = [s for s, r in out["results"].items() if not r.get("caught_by")]
    print(f"{len(out['results'])} seeds, {len(missed)} not caught: {missed}")

if __name__ == "__main__":
    main()
