#!/usr/bin/env python3
"""Resolves merge conflicts in lean/Driver/Main.lean by taking the union of the `import Driver.X`
lines and of the `("engine", Driver.X.handle)` entries found anywhere in the (conflicted) file."""
import re, sys
p = '/verif/lean/Driver/Main.lean' if len(sys.argv) < 2 else sys.argv[1]
s = open(p).read()
imports = list(dict.fromkeys(re.findall(r'^import (Driver\.\w+)', s, re.M)))
entries = list(dict.fromkeys(re.findall(r'\("([\w-]+)",\s*(Driver\.[\w.]+)\)', s)))
out = "\n".join(f"import {i}" for i in imports) + '''
/-!
`driver <engine>`: reads one request per line on stdin, prints one reply per line.
Every engine is a pure function `String → String` of the request line (stateful models receive the
whole operation sequence in one line), so a disagreement replays from the line alone.
-/

def engines : List (String × (String → String)) := [
''' + ",\n".join(f'  ("{n}", {h})' for n, h in entries) + '''
]

partial def loop (h : IO.FS.Stream) (out : IO.FS.Stream) (f : String → String) : IO Unit := do
  let line ← h.getLine
  if line.isEmpty then return ()
  out.putStrLn (f line)
  loop h out f

def main (args : List String) : IO UInt32 := do
  match args with
  | [name] =>
    match engines.lookup name with
    | some f =>
      let out ← IO.getStdout
      loop (← IO.getStdin) out f
      out.flush
      return 0
    | none => IO.eprintln s!"unknown engine {name}"; return 2
  | _ => IO.eprintln "usage: driver <engine>"; return 2
'''
open(p, 'w').write(out)
print("imports:", imports, "engines:", [n for n, _ in entries])
