#!/usr/bin/env python3
"""Run checks against a property-breaking change WITHOUT touching /repo (used while other work is
building against /repo; the final recorded runs apply the patch to /repo itself, see DESIGN §11).

usage: seedtest.py <patch.diff> <Cxx> [<Cxx>…] [--tier quick|thorough]   (env SEED_SLOT=<n>: use scratch worktrees /tmp/rseed<n>, /tmp/vseed<n>, so several can run in parallel)

Creates (once) a scratch worktree of /repo at /tmp/rseed and a scratch worktree of /verif (HEAD of
main) at /tmp/vseed whose harness points at /tmp/rseed; applies the patch to /tmp/rseed; runs
./check for each property with VERIF_REPO=/tmp/rseed; prints the VIOLATION / OK lines; resets.
"""
import os, subprocess, sys

def sh(cmd, cwd=None, env=None, check=False):
    e = dict(os.environ); e.update(env or {})
    p = subprocess.run(cmd, cwd=cwd, env=e, shell=True, stdout=subprocess.PIPE, stderr=subprocess.STDOUT, text=True)
    if check and p.returncode != 0:
        print(p.stdout); sys.exit(f"failed: {cmd}")
    return p.returncode, p.stdout

def main():
    args = sys.argv[1:]
    tier = "quick"
    if "--tier" in args:
        i = args.index("--tier"); tier = args[i + 1]; del args[i:i + 2]
    patch, props = os.path.abspath(args[0]), args[1:]
    slot = os.environ.get("SEED_SLOT", "")
    R, V = "/tmp/rseed" + slot, "/tmp/vseed" + slot
    if not os.path.exists(R):
        sh(f"git -C /repo worktree add --detach {R} HEAD", check=True)
    sh(f"git -C {R} reset -q --hard")   # a failed `apply -3` of an earlier run may have left conflict entries in the index
    sh(f"git -C {R} checkout -q --detach $(git -C /repo rev-parse HEAD) && git -C {R} checkout -- . && git -C {R} clean -fdq -e target", check=True)
    if not os.path.exists(V):
        sh(f"git -C /verif worktree add --detach {V} HEAD", check=True)
    sh(f"git -C {V} checkout -- . && git -C {V} checkout -q --detach $(git -C /verif rev-parse HEAD)", check=True)
    sh(f"sed -i 's|/repo/|{R}/|' {V}/harness/Cargo.toml", check=True)
    rc, out = sh(f"git -C {R} apply {patch}")
    if rc != 0:
        rc, out = sh(f"git -C {R} apply -3 {patch}")   # context moved by a later fix: commit in /repo
        if rc != 0:
            sh(f"git -C {R} reset -q --hard")
            print(out); sys.exit("patch does not apply")
        sh(f"git -C {R} reset -q")
    results = {}
    for pid in props:
        rc, out = sh(f"./check {pid} --tier {tier}", cwd=V, env={"VERIF_REPO": R})
        lines = [l for l in out.split("\n") if l.startswith(("VIOLATION", "OK ", "KNOWN-FINDING", "  unchecked"))]
        results[pid] = (rc, lines)
        print(f"== {pid}: exit {rc}")
        for l in lines[:6]: print("   ", l)
        if rc != 0:
            # show the first replay
            for l in lines:
                if l.startswith("VIOLATION"):
                    path = l.split("replay=")[1].split()[0]
                    try: print("    replay:", open(path).read()[:700].replace("\n", " "))
                    except OSError: pass
                    break
    sh(f"git -C {R} checkout -- .")
    sh(f"git -C {V} checkout -- .")
    caught = [p for p, (rc, _) in results.items() if rc != 0]
    print("CAUGHT by:", caught if caught else "nothing")

if __name__ == "__main__":
    main()
