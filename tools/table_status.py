#!/usr/bin/env python3
"""Rewrites the table between <!-- STATUS-BEGIN --> and <!-- STATUS-END --> in DESIGN.md from props/*.json and evidence/*.json."""
import json, glob, os, re
ROOT = os.path.dirname(os.path.dirname(os.path.abspath(__file__)))
rows = []
for f in sorted(glob.glob(os.path.join(ROOT, "props", "C*.json"))):
    c = json.load(open(f)); pid = c["id"]
    evp = os.path.join(ROOT, "evidence", pid + ".json")
    ev = json.load(open(evp)) if os.path.exists(evp) else {"coverage": {}}
    cov = ev.get("coverage", {})
    runs = ", ".join(r["bin"] + (":" + r["profile"] if r.get("profile") else "") for r in c["runs"])
    gen = ", ".join(c.get("gen", [])) or "—"
    rows.append(f"| {pid} | {runs} | {', '.join(c['lean_props'])} | {cov.get('obligations','?')}/{cov.get('discharged','?')} | {gen} | {cov.get('evaluations','?')} / {cov.get('distinct_nontrivial','?')} | {cov.get('traces_validated_against_impl',0)} | {ev.get('wall_s','?')} |")
table = "| id | engine runs | Lean property modules | theorems audited / discharged | T-gen groups | quick: cases / distinct non-trivial | traces judged | wall s |\n|---|---|---|---|---|---|---|---|\n" + "\n".join(rows)
p = os.path.join(ROOT, "DESIGN.md")
s = open(p).read()
s = re.sub(r"<!-- STATUS-BEGIN -->.*<!-- STATUS-END -->", "<!-- STATUS-BEGIN -->\n" + table + "\n<!-- STATUS-END -->", s, flags=re.S)
open(p, "w").write(s)
print(len(rows), "properties")
